#!/venv/bin/python
"""Sensitivity runs: apply one textual mutation to a scratch copy of /repo/py34, run the
affected check(s) against the copy (BPVERIF_REPO), optionally the repository suite, record
whether the check goes red.  Not a registered check; a development aid.

usage: tools/mutants.py [--suite] [--tier quick] [--only ID[,ID]] [--prop C07]
"""
import os, sys, json, shutil, subprocess, tempfile, argparse, time

HERE = os.path.dirname(os.path.abspath(__file__))
VERIF = os.path.dirname(HERE)
sys.path.insert(0, HERE)
from mutant_list import MUTANTS  # noqa


def run_one(m, tier, suite, seed):
    tmp = tempfile.mkdtemp(prefix="bpmut-")
    try:
        shutil.copytree("/repo/py34", os.path.join(tmp, "py34"), ignore=shutil.ignore_patterns("__pycache__"))
        path = os.path.join(tmp, "py34", "bacpypes", m["file"])
        src = open(path).read()
        if src.count(m["old"]) < 1:
            return dict(id=m["id"], error="pattern not found")
        nth = m.get("nth", 0)
        parts = src.split(m["old"])
        if nth >= len(parts) - 1:
            return dict(id=m["id"], error="nth out of range")
        src2 = m["old"].join(parts[:nth + 1]) + m["new"] + m["old"].join(parts[nth + 1:])
        open(path, "w").write(src2)
        res = dict(id=m["id"], props={})
        env = dict(os.environ, BPVERIF_REPO=tmp, VERIF_SEED=str(seed))
        for pid in m["props"]:
            t0 = time.time()
            # evidence/replays of mutant runs go to a scratch dir
            r = subprocess.run(["/venv/bin/python", "-m", "bpverif", pid, "--tier", tier], cwd=VERIF, env=dict(env, BPVERIF_OUT=tmp),
                               stdout=subprocess.PIPE, stderr=subprocess.PIPE, timeout=3600)
            out = r.stdout.decode()
            sigs = [l.strip() for l in out.splitlines() if l.strip().startswith("signature:")]
            res["props"][pid] = dict(rc=r.returncode, wall=round(time.time() - t0, 1), sigs=sigs[:4],
                                     err=r.stderr.decode()[-300:] if r.returncode == 2 else "")
        if suite:
            try:
                r = subprocess.run(["/venv/bin/python", "-m", "pytest", "-q", "-x", "-p", "no:cacheprovider", "tests"],
                                   cwd="/repo", env=dict(os.environ, PYTHONPATH=os.path.join(tmp, "py34")),
                                   stdout=subprocess.PIPE, stderr=subprocess.STDOUT, timeout=300)
                res["suite_rc"] = r.returncode
                res["suite_tail"] = r.stdout.decode().strip().splitlines()[-1:]
            except subprocess.TimeoutExpired:
                res["suite_rc"] = "timeout"
                res["suite_tail"] = ["the repository suite did not finish within 300 s"]
        return res
    finally:
        shutil.rmtree(tmp, ignore_errors=True)


def main():
    ap = argparse.ArgumentParser()
    ap.add_argument("--suite", action="store_true")
    ap.add_argument("--tier", default="quick")
    ap.add_argument("--only")
    ap.add_argument("--prop")
    ap.add_argument("--seed", type=int, default=1)
    ap.add_argument("--jobs", type=int, default=1)
    ap.add_argument("--store", action="store_true", help="merge the results into findings/mutant_results.json")
    ap.add_argument("--resume", action="store_true", help="skip mutants that already have a stored result")
    a = ap.parse_args()
    sel = MUTANTS
    if a.only:
        ids = set(a.only.split(","))
        sel = [m for m in sel if m["id"] in ids]
    if a.prop:
        sel = [m for m in sel if a.prop in m["props"]]
    caught = 0
    if a.resume:
        try:
            have = json.load(open(os.path.join(VERIF, "findings", "mutant_results.json")))
        except Exception:
            have = {}
        sel = [m for m in sel if m["id"] not in have or have[m["id"]].get("error")]
    for m in sel:
        r = run_one(m, a.tier, a.suite, a.seed)
        ok = r.get("props") and all(v["rc"] == 1 for v in r["props"].values())
        caught += bool(ok)
        print(("CAUGHT " if ok else "MISSED ") + json.dumps(r))
        sys.stdout.flush()
        if a.store:
            path = os.path.join(VERIF, "findings", "mutant_results.json")
            try:
                allr = json.load(open(path))
            except Exception:
                allr = {}
            allr[m["id"]] = dict(props=m["props"], file=m["file"], caught=bool(ok), equivalent=m.get("equivalent"), tier=a.tier, seed=a.seed,
                                 suite_rc=r.get("suite_rc"), checks=dict((k, dict(rc=v["rc"], sigs=[x.replace("signature: ", "") for x in v["sigs"]])) for k, v in (r.get("props") or {}).items()),
                                 error=r.get("error"))
            json.dump(allr, open(path, "w"), indent=1, sort_keys=True)
    print("caught %d of %d" % (caught, len(sel)))


if __name__ == "__main__":
    main()
