#!/venv/bin/python
"""Confirm a seeded defect (patch + demo) in a scratch worktree and run our check against it.

usage: tools/seedcheck.py <dir-with-patch.diff,demo.py,meta.json> [--tier quick] [--props C07,C12]
Prints a JSON line: suite rc, demo clean rc, demo patched rc, check rc + signatures.
"""
import os, sys, json, subprocess, tempfile, shutil, argparse, time

VERIF = os.path.dirname(os.path.dirname(os.path.abspath(__file__)))


def sh(cmd, cwd=None, env=None, timeout=3600):
    r = subprocess.run(cmd, cwd=cwd, env=env, stdout=subprocess.PIPE, stderr=subprocess.STDOUT, timeout=timeout)
    return r.returncode, r.stdout.decode(errors="replace")


def main():
    ap = argparse.ArgumentParser()
    ap.add_argument("dir")
    ap.add_argument("--patch", default="patch.diff")
    ap.add_argument("--demo", default="demo.py")
    ap.add_argument("--tier", default="quick")
    ap.add_argument("--props")
    ap.add_argument("--seed", default="1")
    ap.add_argument("--no-demo", action="store_true")
    ap.add_argument("--meta", default="meta.json")
    ap.add_argument("--store", help="store the confirmed seed as /verif/seeded/<name>/")
    a = ap.parse_args()
    d = os.path.abspath(a.dir)
    patch = os.path.join(d, a.patch)
    demo = os.path.join(d, a.demo)
    wt = tempfile.mkdtemp(prefix="bpseed-")
    os.rmdir(wt)
    res = {}
    try:
        rc, out = sh(["git", "-C", "/repo", "worktree", "add", "-q", "--detach", wt, "HEAD"])
        assert rc == 0, out
        # bring over uncommitted state of /repo? no: HEAD is the tree under test
        env = dict(os.environ, PYTHONPATH=os.path.join(wt, "py34"), PYTHONDONTWRITEBYTECODE="1")
        if not a.no_demo:
            shutil.copy(demo, os.path.join(wt, "_demo.py"))
            rc, out = sh(["timeout", "300", "/venv/bin/python", "_demo.py"], cwd=wt, env=env)
            res["demo_clean_rc"] = rc
            if rc != 0:
                res["demo_clean_tail"] = out[-300:]
        rc, out = sh(["git", "apply", "--whitespace=nowarn", patch], cwd=wt)
        if rc != 0:
            rc, out = sh(["git", "apply", "-3", "--whitespace=nowarn", patch], cwd=wt)
        res["apply_rc"] = rc
        if rc != 0:
            res["apply_out"] = out[-300:]
            print(json.dumps(res))
            return
        rc, out = sh(["/venv/bin/python", "-m", "pytest", "-q", "-p", "no:cacheprovider", "tests"], cwd=wt, env=env)
        res["suite_rc"] = rc
        res["suite_tail"] = out.strip().splitlines()[-1] if out.strip() else ""
        if not a.no_demo:
            rc, out = sh(["timeout", "300", "/venv/bin/python", "_demo.py"], cwd=wt, env=env)
            res["demo_patched_rc"] = rc
            res["demo_patched_tail"] = out.strip()[-300:]
        props = a.props.split(",") if a.props else [json.load(open(os.path.join(d, a.meta)))["property"]]
        res["checks"] = {}
        for pid in props:
            t0 = time.time()
            cenv = dict(os.environ, BPVERIF_REPO=wt, BPVERIF_OUT=wt + "-out", VERIF_SEED=a.seed)
            rc, out = sh(["/venv/bin/python", "-m", "bpverif", pid, "--tier", a.tier], cwd=VERIF, env=cenv)
            sigs = [l.strip()[11:] for l in out.splitlines() if l.strip().startswith("signature:")]
            res["checks"][pid] = dict(rc=rc, wall=round(time.time() - t0, 1), sigs=sigs[:5])
            if rc == 2:
                res["checks"][pid]["err"] = out[-400:]
        print(json.dumps(res))
        confirmed = res.get("demo_clean_rc") == 0 and res.get("suite_rc") == 0 and res.get("demo_patched_rc") not in (0, None)
        if a.store and confirmed:
            dst = os.path.join(VERIF, "seeded", a.store)
            os.makedirs(dst, exist_ok=True)
            if os.path.abspath(patch) != os.path.abspath(os.path.join(dst, "patch.diff")):
                shutil.copy(patch, os.path.join(dst, "patch.diff"))
            if os.path.abspath(demo) != os.path.abspath(os.path.join(dst, "demo.py")):
                shutil.copy(demo, os.path.join(dst, "demo.py"))
            meta = json.load(open(os.path.join(d, a.meta)))
            meta["confirmed_by_us"] = dict(
                ran="tools/seedcheck.py: scratch worktree of /repo HEAD; demo on clean tree; git apply patch; repository suite; demo on patched tree; our check(s) with BPVERIF_REPO=<worktree>",
                demo_clean_rc=res["demo_clean_rc"], suite=res["suite_tail"], demo_patched_rc=res["demo_patched_rc"])
            meta["our_checks"] = res["checks"]
            meta["repo_head_when_confirmed"] = sh(["git", "-C", "/repo", "rev-parse", "--short", "HEAD"])[1].strip()
            json.dump(meta, open(os.path.join(dst, "meta.json"), "w"), indent=1)
        elif a.store:
            sys.stderr.write("NOT stored: seed not confirmed\n")
    finally:
        sh(["git", "-C", "/repo", "worktree", "remove", "--force", wt])
        shutil.rmtree(wt, ignore_errors=True)
        shutil.rmtree(wt + "-out", ignore_errors=True)


if __name__ == "__main__":
    main()
