#!/venv/bin/python
"""Snapshot the wire schema tables of the current tree into golden/schema.json, then apply the audited corrections.
Run by hand (not by checks) when the golden file is (re)built; the result is committed."""
import os, sys, json
VERIF = os.path.dirname(os.path.dirname(os.path.abspath(__file__)))
sys.path.insert(0, VERIF)
from bpverif import boot
boot.boot()
from bpverif.gen import values as V
from bpverif.props import c03

types = {}
for name, (k, regs) in sorted(c03.targets().items()):
    V.schema_of(k, types)
V.schema_of(V.lib().P.ObjectType, types)
for kn in V.ATOMIC_KINDS:
    V.ensure_atomic(types, kn)
for t in sum(V.any_content_types(), []):
    V.schema_of(t, types)
A = V.lib().A
regs = {}
for kind, reg in (("confirmed", A.confirmed_request_types), ("complexack", A.complex_ack_types), ("unconfirmed", A.unconfirmed_request_types), ("error", A.error_types)):
    regs[kind] = dict((str(c), V.type_name(k)) for c, k in sorted(reg.items()))

# ---- audited corrections: (type, element name) -> field overrides, each with the clause it was checked against
CORRECTIONS = [
    ("basetypes.PropertyStates", "writeStatus", dict(context=37), "clause 21 BACnetPropertyStates: write-status [37]"),
    ("basetypes.NameValue", "name", dict(context=0), "clause 21 BACnetNameValue: name [0] CharacterString (the class has a hand-written codec; its element table is documentation)"),
]
HANDWRITTEN = ["basetypes.NameValue"]
applied = []
for t, el, over, why in CORRECTIONS:
    for e in types[t]["elements"]:
        if e["name"] == el:
            before = dict(e)
            e.update(over)
            applied.append(dict(type=t, element=el, before=before, after=dict(e), why=why))
for t in HANDWRITTEN:
    types[t]["handwritten"] = True
out = dict(comment="Wire schema snapshot of bacpypes (py34) with audited corrections; see DESIGN.md C03. Regenerate with tools/make_golden.py.",
           corrections=applied, registries=regs, types=types)
json.dump(out, open(os.path.join(VERIF, "golden", "schema.json"), "w"), indent=0, sort_keys=True)
print("types:", len(types), "corrections:", len(applied))
