#!/bin/bash
# usage: tools/runall.sh <tier> <seed> [ids...]   -- runs the registered checks one after another, prints rc and wall per check
tier=${1:-quick}; seed=${2:-1}; shift 2
ids=${@:-C01 C02 C03 C04 C05 C06 C07 C08 C09 C10 C11 C12 C13 C14 C15 C16 C17 C18 C19 C20}
cd "$(dirname "$0")/.."
for id in $ids; do
  s=$(date +%s)
  VERIF_SEED=$seed /venv/bin/python -m bpverif $id --tier $tier > /tmp/runall.$$.out 2>&1
  rc=$?
  e=$(date +%s)
  echo "$id tier=$tier seed=$seed rc=$rc wall=$((e-s))s $(grep -c '^VIOLATION' /tmp/runall.$$.out) violations; $(tail -1 /tmp/runall.$$.out | cut -c1-160)"
  if [ $rc -ne 0 ]; then grep -A3 '^VIOLATION' /tmp/runall.$$.out | head -40; fi
done
rm -f /tmp/runall.$$.out
