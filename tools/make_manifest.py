#!/venv/bin/python
"""Writes /verif/MANIFEST.json from the table below (so that it always validates)."""
import json, os, sys, importlib

VERIF = os.path.dirname(os.path.dirname(os.path.abspath(__file__)))
sys.path.insert(0, VERIF)

# property -> (category, technique, level text, level note)
CHECKS = {
    "C07": ("exploration",
            "exhaustive header cross-product enumeration + Hypothesis random/mutated octets, differential against an independent reference APCI codec",
            "Every combination of flag bits and code points with boundary octet values for all 8 PDU types is encoded by the library and compared octet-for-octet with an independent clause-20.1 reference codec, decoded back and compared field by field; all octet strings <=2 (<=3 thorough) and random/mutated strings are decoded differentially; the four table functions are checked on all code points and capabilities 0..2000. Exhaustive on the named finite sub-domains, sampled elsewhere.",
            "Trusts bpverif/ref/apci.py as a faithful transcription of clause 20.1; octet fields are sampled at {0,1,127,128,255} rather than all 256 values where the cross product would explode."),
}

NOT_YET = {}


def main():
    props = [json.loads(l) for l in open(os.path.join(VERIF, "properties.jsonl"))]
    checks = []
    na = []
    for p in props:
        pid = p["id"]
        if pid in CHECKS and os.path.exists(os.path.join(VERIF, "bpverif", "props", pid.lower() + ".py")):
            cat, tech, text, note = CHECKS[pid]
            checks.append(dict(
                property_id=pid,
                quick_cmd="/venv/bin/python -m bpverif %s --tier quick" % pid,
                thorough_cmd="/venv/bin/python -m bpverif %s --tier thorough" % pid,
                evidence_file="/verif/evidence/%s.json" % pid,
                replay_cmd_template="/venv/bin/python -m bpverif %s --replay {path}" % pid,
                engine="bpverif",
                level_claimed=dict(category=cat, text=text, design_ref="DESIGN.md section 3, %s" % pid),
                level_note=note,
                technique=tech))
        else:
            na.append(dict(property_id=pid, reason=NOT_YET.get(pid, "check not built yet in this round (design in DESIGN.md section 3); nothing is claimed for it")))
    man = dict(
        version=1,
        setup_cmd="cd /verif && /venv/bin/python -c 'from bpverif import boot; boot.boot()'",
        hooks=dict(guard="BACPYPES_VERIF", enable="no source hooks: the harness rebinds bacpypes.task._time and subclasses vlan.Network from outside; checks import /repo/py34 directly (BPVERIF_REPO overrides the tree)",
                   baseline_off_cmd="cd /repo && PYTHONPATH=/repo/py34 /venv/bin/python -m pytest -ra -q -p no:cacheprovider --timeout=900 --continue-on-collection-errors tests",
                   source_commits=[], add_only=True),
        engines=[dict(name="bpverif", path="/verif/bpverif", serves_properties=[c["property_id"] for c in checks],
                      kind_free_text="Hypothesis 6.168 (seeded, database=None) + bounded exhaustive enumeration over 16 processes, explicit reference oracles, virtual clock on the real TaskManager, fault-injecting virtual LAN")],
        checks=checks,
        notes="All checks: exit 0 held / 1 VIOLATION / 2 harness error. VERIF_SEED and VERIF_TIER honoured. Known findings in findings/known_findings.json.",
        not_applicable=na)
    with open(os.path.join(VERIF, "MANIFEST.json"), "w") as f:
        json.dump(man, f, indent=1)
    try:
        import jsonschema
        jsonschema.validate(man, json.load(open("/root/.vp/MANIFEST.schema.json")))
        print("MANIFEST valid; %d checks, %d not_applicable" % (len(checks), len(na)))
    except ImportError:
        print("written (jsonschema not available for validation)")


if __name__ == "__main__":
    main()
