#!/venv/bin/python
"""Writes /verif/MANIFEST.json from the table below (so that it always validates)."""
import json, os, sys, importlib

VERIF = os.path.dirname(os.path.dirname(os.path.abspath(__file__)))
sys.path.insert(0, VERIF)

# property -> (category, technique, level text, level note)
CHECKS = {
    "C07": ("exploration",
            "exhaustive header cross-product enumeration + Hypothesis random/mutated octets, differential against an independent reference APCI codec",
            "Every combination of flag bits and code points with boundary octet values for all 8 PDU types is encoded by the library and compared octet-for-octet with an independent clause-20.1 reference codec, decoded back and compared field by field; all octet strings <=2 (<=3 thorough) and random/mutated strings are decoded differentially; the four table functions are checked on all code points and capabilities 0..2000. Exhaustive on the named finite sub-domains, sampled elsewhere.",
            "Trusts bpverif/ref/apci.py as a faithful transcription of clause 20.1; octet fields are sampled at {0,1,127,128,255} rather than all 256 values where the cross product would explode."),
    "C08": ("exploration",
            "exhaustive header-shape enumeration + Hypothesis-generated messages and mutated frames, differential against an independent reference NPCI codec",
            "The header cross product (257 message selectors x 8 DADR shapes x 6 SADR shapes x flags x priority x hop counts x payload) is encoded by the library and compared octet-for-octet with an independent clause-6.2 codec and decoded back field by field; all 256 control octets at every truncation, all version octets, all short strings and Hypothesis-mutated frames are decoded differentially (DecodingError exactly when the reference rejects); the 12 message classes round-trip generated parameters.",
            "Trusts bpverif/ref/npci.py; DNET=0xFFFF with DLEN>0 is counted but not judged; address contents are patterned, not exhaustive."),
    "C09": ("exploration",
            "Hypothesis-generated messages through a real AnnexJCodec + exhaustive header-space enumeration, differential against an independent Annex J reference codec",
            "Generated parameters for all 12 BVLL functions go down through a real AnnexJCodec; the captured octets must equal an independent Annex J encoder (type, function, length == len(frame)); every payload length 0..1497 is visited; the full type x function x length-field header space, all short strings and mutated valid frames go up through AnnexJCodec.confirmation and must be refused with DecodingError exactly when the reference rejects, else restore every parameter.",
            "Trusts bpverif/ref/bvlc.py; frames are taken at the codec boundary, not from a UDP socket; well-formed frames with unknown function codes are left to C10."),
    "C18": ("exploration",
            "meaning-to-spellings generation (exhaustive stations/prefixes/ports + Hypothesis), oracle = field semantics via stdlib ipaddress, print/parse round trip, equivalence-relation and hash checks over pools of near-miss meanings",
            "Addresses are generated from their meaning outward into every documented spelling; each spelling must yield exactly the type, network and octets (and, for IP forms, the subnet/host/broadcast values computed by the stdlib ipaddress module), print/parse must round-trip, pools of equivalent spellings must be pairwise equal with equal hashes and address one dict slot while near-miss meanings stay distinct; out-of-range networks/stations and garbage strings must raise. All 256 stations, range-edge networks and all 33 prefixes x port boundaries are enumerated.",
            "Route suffixes and route-aware equality are outside the statement and not generated; IPv4 sample addresses are boundary + random, not exhaustive."),
    "C02": ("exploration",
            "exhaustive short octet strings and bracket sequences + Hypothesis tag lists / mutated encodings, differential against an independent clause-20.2.1 framer and a bracket reference model",
            "Tag lists over the class x number x length-escape cross product are encoded and compared with an independent framer, decoded back and compared field by field; every octet string <=2 (<=3 thorough) and Hypothesis random/mutated strings must yield a list or InvalidTag (watchdog for non-termination), agree with the reference framer tag by tag (over-read / mis-framing shows as disagreement) and be a re-encode fixpoint; TagList.get_context and Any.decode are compared with a reference bracket model on all symbol sequences <=5 (<=6 thorough) and generated nestings to depth 4.",
            "Trusts bpverif/ref/asn1.py; framing-neutral leniencies (LVT 6/7 without class bit, boolean LVT>1, number 255, non-canonical length forms) are shared by reference and library; closing tags with a different number than their opening tag accept either verdict."),
    "C01": ("exploration",
            "boundary-table enumeration + Hypothesis value generation over all 112 concrete primitive classes, differential against an independent clause-20.2 reference encoder/decoder plus library round trip",
            "For every concrete Atomic subclass, values at every length boundary, every enumeration name and number, every bit-string length 0..64, IEEE bit patterns, boundary object identifiers and Hypothesis-generated values are encoded in both tagging modes (all 255 context numbers for one value per class); the octets must equal an independent canonical encoder, decode back to an equal value through the library and through the reference decoder; unrepresentable inputs must be refused or round-trip exactly.",
            "Trusts bpverif/ref/asn1.py and struct's IEEE float32 rounding as the definition of the Real domain; inputs the constructors alias or mask by documented design (Date year 2155, ObjectIdentifier ints >= 2^32, empty name lists) are excluded."),
    "C14": ("exploration",
            "bounded exhaustive operation sequences + Hypothesis long histories against a reference scheduler model, on the real TaskManager under a virtual clock, through both core.run_once() and core.run()",
            "All install/suspend/resume/re-install/advance sequences up to a length bound over up to 4 one-shot tasks with colliding times, plus Hypothesis sequences of up to 200 operations, are applied to the real TaskManager (virtual clock) and to a reference scheduler; the firing logs (task, time) must be identical. Recurring tasks are checked slot by slot against exact rational slots on an interval x offset x install-instant grid; every raising subset x every deferring subset of deferred batches (4096 shapes) and raising tasks among due tasks are enumerated under both event loops.",
            "Only bacpypes.task._time is rebound (harness monkeypatch); the real heap, run_once and run loops execute. Sequence length bounds are below the statement's 7 for 4 tasks (full alphabet <=3 quick / <=4 thorough; length 7 only on a 2-task reduced alphabet in thorough). Per-case 5 s real-time watchdog reports a loop that never returns."),
    "C19": ("exploration",
            "bounded exhaustive + Hypothesis operation histories against a dict reference model, on the real RouterInfoCache and through real network-layer messages into an NSAP/NSE node",
            "All learn/forget/renumber histories up to length 3 (92-symbol alphabet) and 4-6 (15-symbol alphabet) plus Hypothesis histories of up to 300 operations are applied to a real RouterInfoCache and to a one-dict model; after every step every lookup must equal the model and the two indexes must agree, and nothing may raise. The same kinds of histories are driven through encoded I-Am-Router-To-Network / routed / Network-Number-Is frames and the public delete API into a real NSAP+NSE on a recording wire; the next-hop MAC of traffic sent afterwards must be the model's router, unknown destinations must trigger discovery.",
            "Index agreement reads the cache's routers/path_info attributes; renumbering onto a number in use is excluded; message-driven histories run on a one-port and on a two-port node (forwarding between ports is C06)."),
    "C04": ("fault_enumeration",
            "systematic enumeration of every single fault, every fault pair and every silence point over the frames of real client/server transactions (virtual LAN + virtual clock), plus Hypothesis fault streams; oracle = invariants at quiescence",
            "For ~200 configurations (segmentation support 4x4, windows, retries 0..3, sizes across the segmentation boundaries, ack/error/reject/abort/late/silent servers, direct and IOCB submission, 1..3 simultaneous requests) the fault-free run is replayed with every single drop/duplicate/delay at every frame index, every pair of faults on three configurations and total silence from every frame on in each direction; at quiescence exactly one outcome per request with the right invoke ID must have been delivered before an analytic horizon, and neither stack may hold a transaction, timer or queue entry or emit a frame for a finished transaction.",
            "The harness owns the medium (subclass of vlan.Network) and the clock (bacpypes.task._time); T_max is a generous analytic bound, so 'bounded time' is decided as 'quiescent by T_max in virtual time'. Real sockets are not driven."),
    "C05": ("fault_enumeration",
            "payload-length sweeps and exhaustive single-fault / fault-pair placement on real segmented transfers (virtual LAN + virtual clock), wire monitor built on an independent APCI decoder, Hypothesis multi-fault streams",
            "Position-dependent payloads of lengths around (thorough: at) every multiple of the segment size for six max-APDU sizes, all 64 window pairs, transfers of 255..520 segments, and every single drop/duplicate/late-arrival at every frame index of 2-, 3- and 5-segment exchanges in either or both directions are run between real stacks; whatever is delivered must be octet-identical to what was sent (else an abort), every frame on the LAN is decoded independently and must respect sequence numbering, more-follows, proposed window and the acknowledged window, and any single fault must still end in the ack with the exact payload.",
            "Segment sizes follow the library's own slicing (limits are C12); the window rule counts every segment-ack offered to the LAN; 'late arrival' means a delay below the segment timeout."),
    "C12": ("exploration",
            "capability cross-product enumeration + Hypothesis-drawn capability tuples with boundary payloads on real client/server stacks + model-based announcement histories (last I-Am per address); every LAN frame judged through independent NPCI/APCI decoders",
            "Max-APDU pairs x segmentation-support pairs x max-segments, windows, with and without I-Am knowledge, crossed with payload lengths at every boundary the pair implies, are run between real stacks; every frame on the LAN is decoded independently and must respect the max-APDU / segmented-response-accepted / max-segments announced in the request (responses) or in the I-Am (requests); a message that does not fit must end in an abort with a fitting reason, never silence; window fields must stay in 1..127 and within the peer's proposal, also on the negative-ack path (single drop/duplicate faults on a 6-segment exchange). Histories of I-Ams from devices that move among addresses and change their limits, mixed with requests from and to those addresses, are judged against what each address announced last.",
            "Quick tier draws capability tuples with Hypothesis plus a deterministic core; the full cross product of all dimensions is not enumerated. APDU length is what follows the NPCI."),
    "C11": ("exploration",
            "model-based operation histories (Hypothesis lists, shrinkable) on real client/server stacks with a spoofing attacker node, incl. IOCB requests chained from completion callbacks; oracle = token model of live (peer, invoke ID) pairs",
            "Two real client stacks and up to four server stacks whose applications answer only on command are driven by generated histories of submissions (library and application-chosen invoke IDs, deliberate collisions), out-of-order answers, verbatim re-injection of earlier replies, forged acks/errors/segment-acks/aborts from right and wrong peer addresses with live, foreign and completed IDs, and time steps around the APDU timeout; bursts of up to 40 outstanding requests and >256 sequential requests (wrap-around) are included. A token model decides that no live ID is reused per peer, every confirmation belongs to a live (peer, ID) and carries a payload that a reply from that peer with that ID really carried, nothing is delivered for finished transactions, each request is confirmed exactly once and indicated exactly once at the server, and equal IDs from two clients are served independently.",
            "Client APDU timeout < server application timeout by construction; a forged reply with the right address and ID is (correctly) indistinguishable from the real one; reuse of an ID the server still processes is excused as a duplicate by design."),
    "C10": ("exploration",
            "exhaustive single-octet mutations / truncations / insertions of valid request frames + Hypothesis garbage, bodies and interleaved histories injected by an attacker node into a real device on the virtual LAN; frames classified by independent NPCI/APCI decoders",
            "Valid requests of the supported services, a header-only request for every service choice 0..255, all their single-octet substitutions (sampled values; all 256 in thorough), truncations and insertions, Hypothesis-generated parameter bodies and NPDU garbage, requests arriving through two routers from remote sources, segmented-response dialogs with valid and corrupted segment-acks, histories mixing garbage with valid frames in the same instant, and - at the link layer - all 256 values at each BVLL/NPCI header octet, every truncation, insertions, every BVLL function code 0..255 with seven payloads, wrong length fields and Hypothesis histories of valid, mutated and random BVLL messages (unicast and broadcast) are injected into a real device; every frame the reference decoders classify as a well-framed confirmed request must receive exactly one reply of an admissible type with its invoke ID, routed back to its source; afterwards the device must hold no transaction or transaction timer and answer a final ReadProperty correctly.",
            "In the network-layer runs frames enter at the NSAP of a device on the virtual LAN; in the link-layer runs raw datagrams enter below the AnnexJCodec of the same device on a virtual IP subnet (BIPSimple, BIPBBMD and BIPForeign variants), where only a request inside a correctly framed Original-Unicast-NPDU sent to the device is owed a reply; frames with a DADR are not judged; COV lifetime timers created by mutated SubscribeCOV requests are not residue; the exception named in a signature is the first one the event loop swallowed in that history."),
    "C17": ("exploration",
            "bounded exhaustive command sequences + Hypothesis long histories against a 16-slot priority model, applied directly and as WriteProperty/ReadProperty requests between real stacks; model-based min on/off timelines under virtual time",
            "All write/relinquish sequences up to length 3 on every commandable class and up to length 4 (5 thorough) on one class per datatype, with the datatype's zero/empty value among the three values, refused commands (priority 0, 17, 255, -1, slot 0) interleaved, plus Hypothesis histories of up to 100 commands over all 16 priorities, are applied through obj.WriteProperty and over the virtual LAN; after every step present value and all 16 slots, read directly and over the wire (whole array and by element), must equal a 16-slot model. Binary objects with minimum on/off times run generated timelines of commands and time advances against a model of the priority-6 hold.",
            "The Cmd classes are registered with vendor 999 as the samples do; DateTime commandables get an explicit relinquish default; in min on/off timelines priority 6 is left to the mechanism."),
    "C16": ("exploration",
            "model-based timelines (Hypothesis operation lists, shrinkable) on a real COV server and 1..3 real subscriber stacks under virtual time; oracle = COV bookkeeping model with admissible sets",
            "Generated timelines of subscribe / re-subscribe / cancel (confirmed or not, lifetimes 0..120 s, two process ids per subscriber), present-value writes around the COV increment, same-instant bursts, status-flag writes, time advances across expiry instants and reads of activeCovSubscriptions run against a real device with analog, binary, multi-state and pulse-converter objects; after every step the notifications received by each subscriber are compared with a model: acks, exactly one initial notification, one notification per qualifying change per live subscription with the right kind, current values and remaining time, none after cancellation or expiry, no duplicate subscriptions, and an active list equal to the model's.",
            "Where the statement admits two readings (same-instant bursts; per-object vs per-subscription last reported value for analog objects) the oracle accepts both; covIncrement changes and half-specified SubscribeCOV requests are not generated."),
    "C03": ("exploration",
            "schema-driven Hypothesis generation over all registered PDUs and constructed types (all presence patterns / choice alternatives forced), round-trip + re-encode laws, differential against an independent schema interpreter over an audited golden schema, and published Annex F vectors",
            "For each of the 58 registered service PDUs and ~230 Sequence/Choice classes a recursive strategy built from the class's own element tables generates values (every presence pattern of optionals for classes with few optionals, every choice alternative, lists 0..3, Any filled with typed atomic and constructed values nested up to three opening tags deep); each value must encode, decode to a structurally equal value consuming every tag (PDUs refuse trailing data), re-encode identically and equal the octets of an independent interpreter of golden/schema.json over the reference tag/primitive encoder; live tables and registries must not drift from the golden schema; 17 Annex F examples must encode to the published octets and decode to the published parameters.",
            "golden/schema.json is a snapshot of the pinned tables with audited corrections (listed inside the file); for un-audited base types it is a regression oracle. Two open known findings (list-typed choice alternatives; NotificationParametersExtended) are excluded by construction when nested."),
    "C15": ("exploration",
            "model-based ReadProperty / WriteProperty / ReadPropertyMultiple histories (Hypothesis, schema-driven values) between a real client stack and a real device for every registered object type; oracle = dict model + reference encoder",
            "For each of the ~60 registered standard object types an instance is configured through the public API (generated initial values of the declared datatypes, generated writable subset), then generated histories of reads with all index classes, valid writes by construction, refused writes by construction (unknown object/property, wrong datatype, read-only, index beyond the array) and ReadPropertyMultiple with explicit references and the all/required/optional selectors run over the virtual LAN; acked writes must read back (structurally and, for the value octets, against the reference encoder), refused writes must answer the matching error and leave a full snapshot unchanged, array index rules must hold and every RPM element must equal what ReadProperty returns.",
            "Objects with special write semantics (commandable, device-object computed properties, local schedule) are excluded here; absent properties are 'unknown' to the library by design, so writes target present properties; a single element is a legitimate one-element list."),
    "C20": ("exploration",
            "exhaustive enumeration of every calendar date 1900..2154 against all pattern classes (datetime/calendar oracle) + Hypothesis schedules evaluated at every minute against a direct reference interpreter of clause 12.24 + timer-driven multi-day runs under virtual time",
            "Every date of 255 years is matched against ~300 date patterns, 1200 week-n-day patterns and ~70 closed / open-ended ranges and compared with predicates written on python's calendar; generated schedules (effective periods, weekly lists with Null entries, up to four prioritised exceptions with date / range / week-n-day / calendar-reference periods, four datatypes) are evaluated at every configured time +-1/100 s and at every minute of sampled days against a direct interpreter of the clause, and the reported next-transition time is checked exactly: the reference value must be constant up to it; real LocalScheduleObjects are then run by their own timer for 3..10 virtual days across the edges of the effective period, comparing presentValue every minute and requiring the interpreter task to stay armed.",
            "TZ=UTC (plus timer-driven runs in a daylight-saving zone); sorted distinct time-values, distinct exception priorities, fully specified or fully open range ends (the domain the statement implies); timer-driven runs use whole-minute transition times; the value outside the effective period is not judged; runs in the EST5EDT zone do not judge the three hours on either side of a clock change."),
    "C06": ("exploration",
            "Hypothesis-generated loop-free internetworks x generated message lists (cold and warm, bursts) on real NSAP/NSE stations and multi-port routers; oracle derived from the topology graph, wire monitor on an independent NPCI decoder",
            "Random bipartite trees of 2..8 networks with routers of 2..4 ports and stations that do or do not know their network number carry unicasts, remote broadcasts, global and local broadcasts - each sent cold (path discovery needed) and warm, also as same-instant bursts to one undiscovered network; the multiset of (station, token) handed above the network layer must equal the graph-derived recipient set exactly, the source address shown must route a reply back to the originator alone, and every LAN frame carrying the token must have hop count 255 - router distance and be emitted only by the router on the path from the source. Injected hop counts 0..3 must die out after as many hops; rings of 3 and 4 networks must reach quiescence within a frame bound for global, remote-broadcast and remote-unicast traffic.",
            "Exactly-once is not asserted in cyclic topologies, only termination; the full (source, kind, destination) cross product is enumerated on three fixed topologies, sampled elsewhere."),
    "C13": ("exploration",
            "model-based timelines (Hypothesis layouts x operation lists, shrinkable) on real BIPSimple / BIPBBMD / BIPForeign layers over virtual IP subnets under virtual time; oracle = Annex J reachability computed from the tables + two-sided registration window read off the wire",
            "Random layouts of 1..5 subnets with 0..1 BBMD and 0..3 ordinary nodes each, 0..4 foreign devices with TTL 1..300 s registered with any BBMD, full and partial distribution tables with two-hop or directed-broadcast masks carry broadcasts from every kind of node at generated instants placed around every registration edge (TTL, TTL+5, TTL+30, TTL+31, renewals), with renewals cut off, unregistration, Delete-FDT-Entry and Read-FDT by BVLL message; the PDUs handed above each node's B/IP layer must equal the table-derived recipient set exactly once each, never the originator, with the originator's address as source; a foreign device nobody interferes with is served without a gap, one whose renewals stop is served for its TTL, may be served up to TTL+31 s and must be neither served nor listed afterwards, a deleted entry stops service at once and an unregistered one within the grace period.",
            "A foreign device is never placed on its registrar's subnet, nor next to another BBMD when directed-broadcast masks are used (Annex J duplicates by design); the grace constant is judged as a window (5 s in the BBMD, 30 s in the device, 30 in Annex J); Distribute-Broadcast from an unlisted address is measured, not asserted."),
}

NOT_YET = {}


def main():
    props = [json.loads(l) for l in open(os.path.join(VERIF, "properties.jsonl"))]
    checks = []
    na = []
    for p in props:
        pid = p["id"]
        if pid in CHECKS and os.path.exists(os.path.join(VERIF, "bpverif", "props", pid.lower() + ".py")):
            cat, tech, text, note = CHECKS[pid]
            # what was added to the generators later is kept in the module's RULE text ("Also: ..."): carry it over
            import re
            src = open(os.path.join(VERIF, "bpverif", "props", pid.lower() + ".py")).read()
            parts = re.findall(r'"((?:[^"\\\\]|\\\\.)*)"', src[src.index("RULE = ("):src.index("\nASSUMPTIONS")])
            whole = "".join(parts)
            also = [whole[whole.index("Also:"):]] if "Also:" in whole else []
            if also:
                text = text + " " + also[0].strip()
            checks.append(dict(
                property_id=pid,
                quick_cmd="/venv/bin/python -m bpverif %s --tier quick" % pid,
                thorough_cmd="/venv/bin/python -m bpverif %s --tier thorough" % pid,
                evidence_file="/verif/evidence/%s.json" % pid,
                replay_cmd_template="/venv/bin/python -m bpverif %s --replay {path}" % pid,
                engine="bpverif",
                level_claimed=dict(category=cat, text=text, design_ref="DESIGN.md section 3, %s" % pid),
                level_note=note,
                technique=tech))
        else:
            na.append(dict(property_id=pid, reason=NOT_YET.get(pid, "check not built yet in this round (design in DESIGN.md section 3); nothing is claimed for it")))
    man = dict(
        version=1,
        setup_cmd="cd /verif && /venv/bin/python -c 'from bpverif import boot; boot.boot()'",
        hooks=dict(guard="BACPYPES_VERIF", enable="no source hooks: the harness rebinds bacpypes.task._time and subclasses vlan.Network from outside; checks import /repo/py34 directly (BPVERIF_REPO overrides the tree)",
                   baseline_off_cmd="cd /repo && PYTHONPATH=/repo/py34 /venv/bin/python -m pytest -ra -q -p no:cacheprovider --timeout=900 --continue-on-collection-errors tests",
                   source_commits=[], add_only=True),
        engines=[dict(name="bpverif", path="/verif/bpverif", serves_properties=[c["property_id"] for c in checks],
                      kind_free_text="Hypothesis 6.168 (seeded, database=None) + bounded exhaustive enumeration over 16 processes, explicit reference oracles, virtual clock on the real TaskManager, fault-injecting virtual LAN")],
        checks=checks,
        notes="All checks: exit 0 held / 1 VIOLATION / 2 harness error. VERIF_SEED and VERIF_TIER honoured. Known findings in findings/known_findings.json.",
        not_applicable=na)
    with open(os.path.join(VERIF, "MANIFEST.json"), "w") as f:
        json.dump(man, f, indent=1)
    try:
        import jsonschema
        jsonschema.validate(man, json.load(open("/root/.vp/MANIFEST.schema.json")))
        print("MANIFEST valid; %d checks, %d not_applicable" % (len(checks), len(na)))
    except ImportError:
        print("written (jsonschema not available for validation)")


if __name__ == "__main__":
    main()
