#!/bin/bash
# usage: tools/reseed.sh [glob, e.g. "C06-*"] [seed]
# re-confirm every stored seeded change against the current /repo HEAD and the current checks
cd "$(dirname "$0")/.."
for d in seeded/${1:-*}/; do
  n=$(basename $d)
  props=$(python3 -c "
import json,sys
m=json.load(open('$d/meta.json'))
oc=m.get('our_checks') or {}
print(','.join(sorted(oc)) or m['property'])")
  out=$(/venv/bin/python tools/seedcheck.py $d --props $props --store $n --seed ${2:-1} 2>&1 | tail -1)
  echo "$n $(echo "$out" | python3 -c "
import sys,json
try:
    d=json.loads(sys.stdin.read())
    print('apply',d.get('apply_rc'),'demo_clean',d.get('demo_clean_rc'),'suite',d.get('suite_rc'),'demo_patched',d.get('demo_patched_rc'),{k:(v['rc'],v['sigs'][:2]) for k,v in (d.get('checks') or {}).items()})
except Exception as e:
    print('ERR',e)")"
done
