#!/usr/bin/env python3
"""Rewrite the generated block of DESIGN.md section 9 from seeded/*/meta.json and findings/mutant_results.json."""
import os, json, glob
VERIF = os.path.dirname(os.path.dirname(os.path.abspath(__file__)))


def esc(t):
    return str(t).replace("|", "/").replace("\n", " ")


def main():
    out = []
    out.append("### 9.1 Independently seeded changes (`seeded/`)\n")
    out.append("Each row: a change written by a sub-agent that saw only the property text; it compiles, the 405 tests pass with it, its own demo fails with it and passes without (re-confirmed by `tools/seedcheck.py` in a scratch worktree). `caught by` = our quick-tier check(s) run against the patched worktree (`rc=1` = VIOLATION) with the first signatures reported.\n")
    out.append("| seed | change | caught by | signatures |")
    out.append("|---|---|---|---|")
    n = c = 0
    for d in sorted(glob.glob(os.path.join(VERIF, "seeded", "*"))):
        mp = os.path.join(d, "meta.json")
        if not os.path.exists(mp):
            continue
        m = json.load(open(mp))
        oc = m.get("our_checks") or {}
        red = [k for k, v in sorted(oc.items()) if v.get("rc") == 1]
        green = [k for k, v in sorted(oc.items()) if v.get("rc") == 0]
        sigs = []
        for k in red:
            sigs += oc[k].get("sigs", [])[:3]
        n += 1
        c += bool(red)
        out.append("| %s | %s | %s%s | %s |" % (os.path.basename(d), esc(m.get("title", ""))[:260], ", ".join(red) or "**missed**",
                                               (" (not by " + ", ".join(green) + ": see text)") if green and red else "", esc("; ".join("`%s`" % s for s in sigs))[:300]))
    out.append("\n%d of %d seeded changes are reported by at least one check.\n" % (c, n))
    rp = os.path.join(VERIF, "findings", "mutant_results.json")
    if os.path.exists(rp):
        R = json.load(open(rp))
        out.append("### 9.2 Hand-written mutants (`tools/mutant_list.py`, results in `findings/mutant_results.json`)\n")
        byp = {}
        for mid, r in sorted(R.items()):
            for p in r["props"]:
                byp.setdefault(p, []).append((mid, r))
        out.append("| property | mutants | caught (quick tier) | suite still green | not caught |")
        out.append("|---|---|---|---|---|")
        tot = tc = 0
        for p in sorted(byp):
            rows = byp[p]
            caught = [m for m, r in rows if r["caught"]]
            green = [m for m, r in rows if r.get("suite_rc") == 0]
            missed = ["%s%s" % (m, " (equivalent: %s)" % esc(r["equivalent"]) if r.get("equivalent") else "") for m, r in rows if not r["caught"]]
            tot += len(rows)
            tc += len(caught)
            out.append("| %s | %d | %d | %d | %s |" % (p, len(rows), len(caught), len(green), "; ".join(missed) or "-"))
        tot, tc = len(R), len([1 for r in R.values() if r["caught"]])       # (a mutant tried against two properties has two rows)
        out.append("\n%d of %d mutants are caught. `suite still green` counts the mutants the repository's own 405 tests do not notice.\n" % (tc, tot))
    path = os.path.join(VERIF, "DESIGN.md")
    s = open(path).read()
    # section 6: the table of repairs, from known_findings.json and the repository's log
    import subprocess
    F = json.load(open(os.path.join(VERIF, "findings", "known_findings.json")))["findings"]
    by = {}
    for f in F:
        if f["status"] == "fixed":
            by.setdefault(f["commit"], []).append(f)
    rows = ["| commit | found by | repair | what failed |", "|---|---|---|---|"]
    log = subprocess.check_output(["git", "-C", "/repo", "log", "--reverse", "--format=%h %s", "--grep=^fix:"]).decode().strip().splitlines()
    nfix = 0
    for l in log:
        h, subj = l.split(" ", 1)
        fs = by.get(h, [])
        if not fs:
            continue
        nfix += 1
        rows.append("| `%s` | %s | %s | %s |" % (h, ",".join(sorted(set(f["property"] for f in fs))), esc(subj.replace("fix: ", "")), esc("; ".join(f["what"] for f in fs))))
    rows.append("\n%d repairs.\n" % nfix)
    a = s.index("<!-- FIX-BEGIN -->") + len("<!-- FIX-BEGIN -->")
    b = s.index("<!-- FIX-END -->")
    s = s[:a] + "\n" + "\n".join(rows) + "\n" + s[b:]
    a = s.index("<!-- SENS-BEGIN -->") + len("<!-- SENS-BEGIN -->")
    b = s.index("<!-- SENS-END -->")
    s = s[:a] + "\n" + "\n".join(out) + "\n" + s[b:]
    open(path, "w").write(s)
    print("section 9 rewritten: %d seeds" % n)


if __name__ == "__main__":
    main()
