#!/venv/bin/python
"""Writes golden/annex_f.json: worked examples of ASHRAE 135 Annex F transcribed by hand (parameters + published octets of
the service data, i.e. without the fixed APDU header).  Only examples that could be transcribed with confidence."""
import os, json, struct
VERIF = os.path.dirname(os.path.dirname(os.path.abspath(__file__)))
def f32(x): return struct.unpack(">f", struct.pack(">f", x))[0]
def oid(t, i): return {"oid": [t, i]}
def en(n): return {"enum": n}
def real(x): return {"any": ["bacpypes.primitivedata:Real", f32(x)]}
A = "bacpypes.apdu:"
V = []
def vec(name, cls, plain, hx):
    V.append(dict(name=name, cls=A + cls, plain={"seq": plain}, hex=hx.replace(" ", "")))
vec("who-is", "WhoIsRequest", {}, "")
vec("who-is-range", "WhoIsRequest", {"deviceInstanceRangeLowLimit": 3, "deviceInstanceRangeHighLimit": 3}, "09 03 19 03")
vec("i-am", "IAmRequest", {"iAmDeviceIdentifier": oid("device", 3), "maxAPDULengthAccepted": 1024, "segmentationSupported": en("noSegmentation"), "vendorID": 99},
    "C4 02 00 00 03 22 04 00 91 03 21 63")
vec("who-has-name", "WhoHasRequest", {"object": {"ch": ["objectName", "OATemp"]}}, "3D 07 00 4F 41 54 65 6D 70")
vec("who-has-id", "WhoHasRequest", {"object": {"ch": ["objectIdentifier", oid("analogInput", 3)]}}, "2C 00 00 00 03")
vec("i-have", "IHaveRequest", {"deviceIdentifier": oid("device", 8), "objectIdentifier": oid("analogInput", 3), "objectName": "OATemp"},
    "C4 02 00 00 08 C4 00 00 00 03 75 07 00 4F 41 54 65 6D 70")
vec("read-property", "ReadPropertyRequest", {"objectIdentifier": oid("analogInput", 5), "propertyIdentifier": en("presentValue")}, "0C 00 00 00 05 19 55")
vec("read-property-ack", "ReadPropertyACK", {"objectIdentifier": oid("analogInput", 5), "propertyIdentifier": en("presentValue"), "propertyValue": real(72.3)},
    "0C 00 00 00 05 19 55 3E 44 42 90 99 9A 3F")
vec("write-property", "WritePropertyRequest", {"objectIdentifier": oid("analogValue", 1), "propertyIdentifier": en("presentValue"), "propertyValue": real(180.0)},
    "0C 00 80 00 01 19 55 3E 44 43 34 00 00 3F")
vec("subscribe-cov", "SubscribeCOVRequest", {"subscriberProcessIdentifier": 18, "monitoredObjectIdentifier": oid("analogInput", 10), "issueConfirmedNotifications": True, "lifetime": 0},
    "09 12 1C 00 00 00 0A 29 01 39 00")
vec("confirmed-cov-notification", "ConfirmedCOVNotificationRequest",
    {"subscriberProcessIdentifier": 18, "initiatingDeviceIdentifier": oid("device", 4), "monitoredObjectIdentifier": oid("analogInput", 10), "timeRemaining": 0,
     "listOfValues": {"list": [{"seq": {"propertyIdentifier": en("presentValue"), "value": real(65.0)}},
                               {"seq": {"propertyIdentifier": en("statusFlags"), "value": {"any": ["bacpypes.basetypes:StatusFlags", {"bits": [0, 0, 0, 0]}]}}}]}},
    "09 12 1C 02 00 00 04 2C 00 00 00 0A 39 00 4E 09 55 2E 44 42 82 00 00 2F 09 6F 2E 82 04 00 2F 4F")
vec("read-property-multiple", "ReadPropertyMultipleRequest",
    {"listOfReadAccessSpecs": {"list": [{"seq": {"objectIdentifier": oid("analogInput", 16),
                                                  "listOfPropertyReferences": {"list": [{"seq": {"propertyIdentifier": en("presentValue")}}, {"seq": {"propertyIdentifier": en("reliability")}}]}}}]}},
    "0C 00 00 00 10 1E 09 55 09 67 1F")
vec("read-property-multiple-ack", "ReadPropertyMultipleACK",
    {"listOfReadAccessResults": {"list": [{"seq": {"objectIdentifier": oid("analogInput", 16), "listOfResults": {"list": [
        {"seq": {"propertyIdentifier": en("presentValue"), "readResult": {"ch": ["propertyValue", real(72.3)]}}},
        {"seq": {"propertyIdentifier": en("reliability"), "readResult": {"ch": ["propertyValue", {"any": ["bacpypes.basetypes:Reliability", en("noFaultDetected")]}]}}}]}}}]}},
    "0C 00 00 00 10 1E 29 55 4E 44 42 90 99 9A 4F 29 67 4E 91 00 4F 1F")
vec("device-communication-control", "DeviceCommunicationControlRequest", {"timeDuration": 5, "enableDisable": en("disable"), "password": "#egbdf!"},
    "09 05 19 01 2D 08 00 23 65 67 62 64 66 21")
vec("reinitialize-device", "ReinitializeDeviceRequest", {"reinitializedStateOfDevice": en("warmstart"), "password": "AbCdEfGh"},
    "09 01 1D 09 00 41 62 43 64 45 66 47 68")
vec("atomic-read-file-stream", "AtomicReadFileRequest", {"fileIdentifier": oid("file", 1), "accessMethod": {"ch": ["streamAccess", {"seq": {"fileStartPosition": 0, "requestedOctetCount": 27}}]}},
    "C4 02 80 00 01 0E 31 00 21 1B 0F")
vec("confirmed-private-transfer-ack", "ConfirmedPrivateTransferACK", {"vendorID": 25, "serviceNumber": 8}, "09 19 19 08")
json.dump(dict(comment="Annex F worked examples (service data only). Transcribed by hand; see tools/make_annex_f.py.", vectors=V),
          open(os.path.join(VERIF, "golden", "annex_f.json"), "w"), indent=1)
print(len(V), "vectors")
