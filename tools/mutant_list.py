"""Hand-written mutants: one textual change each, to /repo/py34/bacpypes/<file>.
nth = which occurrence of `old` (0-based)."""
MUTANTS = [
    # ---- C07
    dict(id="c07-swap-mor-sa", props=["C07"], file="apdu.py", old="buff += 0x04\n            if self.apduSA:\n                buff += 0x02", new="buff += 0x02\n            if self.apduSA:\n                buff += 0x04"),
    dict(id="c07-srv-mask", props=["C07"], file="apdu.py", old="self.apduSrv = ((buff & 0x01) != 0)\n            self.apduInvokeID = pdu.get()\n            self.apduSeq", new="self.apduSrv = ((buff & 0x02) != 0)\n            self.apduInvokeID = pdu.get()\n            self.apduSeq"),
    dict(id="c07-maxsegs-mask", props=["C07"], file="apdu.py", old="(buff >> 4) & 0x07", new="(buff >> 4) & 0x0F"),
    dict(id="c07-table-206", props=["C07"], file="apdu.py", old="[50, 128, 206, 480", new="[50, 128, 260, 480"),
    dict(id="c07-segs-lt", props=["C07"], file="apdu.py", old="if _max_segments_accepted_encoding[i] <= arg:", new="if _max_segments_accepted_encoding[i] < arg:"),
    dict(id="c07-cack-win-omitted", props=["C07"], file="apdu.py", old="                pdu.put(self.apduSeq)\n                pdu.put(self.apduWin)\n            pdu.put(self.apduService)\n\n        elif (self.apduType == SegmentAckPDU.pduType):", new="                pdu.put(self.apduSeq)\n                pdu.put(self.apduSeq)\n            pdu.put(self.apduService)\n\n        elif (self.apduType == SegmentAckPDU.pduType):"),
]
