"""Hand-written mutants: one textual change each, to /repo/py34/bacpypes/<file>.
nth = which occurrence of `old` (0-based)."""
MUTANTS = [
    # ---- C07
    dict(id="c07-swap-mor-sa", props=["C07"], file="apdu.py", old="buff += 0x04\n            if self.apduSA:\n                buff += 0x02", new="buff += 0x02\n            if self.apduSA:\n                buff += 0x04"),
    dict(id="c07-srv-mask", props=["C07"], file="apdu.py", old="self.apduSrv = ((buff & 0x01) != 0)\n            self.apduInvokeID = pdu.get()\n            self.apduSeq", new="self.apduSrv = ((buff & 0x02) != 0)\n            self.apduInvokeID = pdu.get()\n            self.apduSeq"),
    dict(id="c07-maxsegs-mask", props=["C07"], file="apdu.py", old="(buff >> 4) & 0x07", new="(buff >> 4) & 0x0F"),
    dict(id="c07-table-206", props=["C07"], file="apdu.py", old="[50, 128, 206, 480", new="[50, 128, 260, 480"),
    dict(id="c07-segs-lt", props=["C07"], file="apdu.py", old="if _max_segments_accepted_encoding[i] <= arg:", new="if _max_segments_accepted_encoding[i] < arg:"),
    dict(id="c07-cack-win-omitted", props=["C07"], file="apdu.py", old="                pdu.put(self.apduSeq)\n                pdu.put(self.apduWin)\n            pdu.put(self.apduService)\n\n        elif (self.apduType == SegmentAckPDU.pduType):", new="                pdu.put(self.apduSeq)\n                pdu.put(self.apduSeq)\n            pdu.put(self.apduService)\n\n        elif (self.apduType == SegmentAckPDU.pduType):"),
]
MUTANTS += [
    # ---- C08
    dict(id="c08-swap-dnet-snet-bits", props=["C08"], file="npdu.py", old="dnetPresent = 0x20\n", new="dnetPresent = 0x08\n"),
    dict(id="c08-prio-mask", props=["C08"], file="npdu.py", old="self.pduNetworkPriority = control & 0x03", new="self.pduNetworkPriority = control & 0x07"),
    dict(id="c08-slen0-dropped", props=["C08"], file="npdu.py", old="            elif slen == 0:\n                raise DecodingError(\"SADR can't be a remote broadcast\")\n", new=""),
    dict(id="c08-vendor-threshold", props=["C08"], file="npdu.py", old="if (self.npduNetMessage >= 0x80) and (self.npduNetMessage <= 0xFF):\n                # extract", new="if (self.npduNetMessage > 0x80) and (self.npduNetMessage <= 0xFF):\n                # extract"),
    dict(id="c08-hop-before-sadr", props=["C08"], file="npdu.py", old="        # extract the source address\n        if snetPresent:", new="        if dnetPresent and snetPresent and False:\n            pass\n        # extract the source address\n        if snetPresent and not (control & 0x40):"),
    dict(id="c08-irt-portinfo-len", props=["C08"], file="npdu.py", old="            portInfoLen = npdu.get()\n            portInfo = npdu.get_data(portInfoLen)\n            rte = RoutingTableEntry(dnet, portID, portInfo)\n            self.irtaTable.append(rte)", new="            portInfoLen = npdu.get()\n            portInfo = npdu.get_data(portInfoLen & 0x7F)\n            rte = RoutingTableEntry(dnet, portID, portInfo)\n            self.irtaTable.append(rte)"),
    dict(id="c08-version-check", props=["C08"], file="npdu.py", old="if (self.npduVersion != 0x01):", new="if (self.npduVersion > 0x01):"),
]
MUTANTS += [
    # ---- C09
    dict(id="c09-bdt-len6", props=["C09"], file="bvll.py", old="        # make sure the length is correct\n        self.bvlciLength = 4 + 10 * len(self.bvlciBDT)", new="        # make sure the length is correct\n        self.bvlciLength = 4 + 6 * len(self.bvlciBDT)"),
    dict(id="c09-mask-short", props=["C09"], file="bvll.py", old="bvlpdu.put_long( bdte.addrMask )", new="bvlpdu.put_long( bdte.addrMask & 0xFFFFFF00 )"),
    dict(id="c09-decode-len-lt", props=["C09"], file="bvll.py", old="if (self.bvlciLength != len(pdu.pduData) + 4):\n            raise DecodingError", new="if (self.bvlciLength < len(pdu.pduData) + 4):\n            raise DecodingError"),
    dict(id="c09-fdt-swap", props=["C09"], file="bvll.py", old="            fdte.fdTTL = bvlpdu.get_short()\n            fdte.fdRemain = bvlpdu.get_short()", new="            fdte.fdRemain = bvlpdu.get_short()\n            fdte.fdTTL = bvlpdu.get_short()"),
    dict(id="c09-fwd-len-stale", equivalent="ctor already sets the right length; only late assignment differs and then the encoder refuses", props=["C09"], file="bvll.py", old="        # make sure the length is correct\n        self.bvlciLength = 10 + len(self.pduData)", new="        # make sure the length is correct\n        self.bvlciLength = self.bvlciLength or (10 + len(self.pduData))"),
    dict(id="c09-type-check", props=["C09"], file="bvll.py", old="if self.bvlciType != 0x81:", new="if self.bvlciType < 0x81:"),
    dict(id="c09-pack-port", props=["C09"], file="pdu.py", old="return (socket.inet_ntoa(addr[0:4]), struct.unpack('!H', addr[4:6])[0])", new="return (socket.inet_ntoa(addr[0:4]), struct.unpack('<H', addr[4:6])[0])"),
]
MUTANTS += [
    # ---- C18
    dict(id="c18-net-65535", props=["C18"], file="pdu.py", old="                    if (net_addr >= 65535):\n                        raise ValueError(\"network out of range\")\n                    self.addrType = Address.remoteStationAddr", new="                    if (net_addr > 65535):\n                        raise ValueError(\"network out of range\")\n                    self.addrType = Address.remoteStationAddr"),
    dict(id="c18-mask-shift", props=["C18"], file="pdu.py", old="(_long_mask << (32 - int(local_ip_net))) & _long_mask", new="(_long_mask << (31 - int(local_ip_net))) & _long_mask"),
    dict(id="c18-hash-id", props=["C18"], file="pdu.py", old="        return hash(self._tuple())", new="        return hash((self.addrType, self.addrNet, self.addrLen, id(self.addrAddr)))"),
    dict(id="c18-eq-ignores-net", props=["C18"], file="pdu.py", old="        rslt = rslt and (self.addrNet == arg.addrNet)\n", new=""),
    dict(id="c18-str-port-default", props=["C18"], file="pdu.py", old="                    if port != 47808:\n                        rslt += ':' + str(port)", new="                    if port != 47809:\n                        rslt += ':' + str(port)", nth=1),
    dict(id="c18-station-255", props=["C18"], file="pdu.py", old="                        if local_addr >= 256:", new="                        if local_addr >= 255:"),
    dict(id="c18-host-mask", props=["C18"], file="pdu.py", old="                    self.addrHost = (self.addrIP & ~self.addrMask)\n                    self.addrSubnet = (self.addrIP & self.addrMask)\n                    bcast", new="                    self.addrHost = (self.addrIP & ~self.addrMask) & 0xFFFFFF\n                    self.addrSubnet = (self.addrIP & self.addrMask)\n                    bcast"),
]

MUTANTS += [
    # ---- C02
    dict(id="c02-len-254-255-swap", props=["C02"], file="primitivedata.py", old="                if (self.tagLVT == 254):\n                    self.tagLVT = pdu.get_short()\n                elif (self.tagLVT == 255):", new="                if (self.tagLVT == 255):\n                    self.tagLVT = pdu.get_short()\n                elif (self.tagLVT == 254):"),
    dict(id="c02-no-invalidtag-translation", props=["C02"], file="primitivedata.py", old="        except DecodingError:\n            raise InvalidTag(\"invalid tag encoding\")", new="        except DecodingError:\n            raise"),
    dict(id="c02-get-context-lvl", props=["C02"], file="primitivedata.py", old="                if lvl >= 0:\n                    raise InvalidTag(\"mismatched open/close tags\")", new="                if lvl > 0:\n                    raise InvalidTag(\"mismatched open/close tags\")"),
    dict(id="c02-class-mask", props=["C02"], file="primitivedata.py", old="self.tagClass = (tag >> 3) & 0x01", new="self.tagClass = (tag >> 3) & 0x03"),
    dict(id="c02-get-data-off-by-one", props=["C02"], file="comm.py", old="        if len(self.pduData) < dlen:\n            raise DecodingError(\"no more packet data\")", new="        if len(self.pduData) < dlen - 1:\n            raise DecodingError(\"no more packet data\")"),
    dict(id="c02-any-balance", props=["C02"], file="constructeddata.py", old="        # make sure everything balances\n        if lvl > 0:\n            raise DecodingError(\"mismatched open/close tags\")", new="        # make sure everything balances\n        if lvl > 1:\n            raise DecodingError(\"mismatched open/close tags\")"),
    dict(id="c02-len-253", props=["C02", "C01"], file="primitivedata.py", old="            if (self.tagLVT <= 253):", new="            if (self.tagLVT < 253):"),
]

MUTANTS += [
    # ---- C01
    dict(id="c01-integer-sign", props=["C01"], file="primitivedata.py", old="                if (data[1] >= 128):\n                    break\n                del data[0]", new="                if (data[1] > 128):\n                    break\n                del data[0]"),
    dict(id="c01-bitstring-unused", props=["C01"], file="primitivedata.py", old="        unused = used and (8 - used) or 0", new="        unused = used and used or 0"),
    dict(id="c01-oid-shift", props=["C01"], file="primitivedata.py", old="        objType = (value >> 22) & 0x03FF", new="        objType = (value >> 22) & 0x01FF"),
    dict(id="c01-real-double", props=["C01"], file="primitivedata.py", old="struct.pack('>f',self.value)", new="struct.pack('>d',self.value)"),
    dict(id="c01-bool-ctx", props=["C01"], file="primitivedata.py", old="            return ContextTag(context, bytearray([self.tagLVT]))", new="            return ContextTag(context, bytearray([]))"),
    dict(id="c01-unsigned-strip", props=["C01"], file="primitivedata.py", old="        while (len(data) > 1) and (data[0] == 0):\n            del data[0]\n\n        # encode the tag\n        tag.set_app_data(Tag.unsignedAppTag, data)", new="        while (len(data) > 2) and (data[0] == 0):\n            del data[0]\n\n        # encode the tag\n        tag.set_app_data(Tag.unsignedAppTag, data)"),
    dict(id="c01-enum-xlate", props=["C01"], file="primitivedata.py", old="        rslt = self._xlate_table.get(rslt, rslt)\n\n        # save the result\n        self.value = rslt", new="        rslt = self._xlate_table.get(rslt & 0xFFFF, rslt)\n\n        # save the result\n        self.value = rslt"),
    dict(id="c01-date-tuple", props=["C01"], file="primitivedata.py", old="        tag.set_app_data(Tag.dateAppTag, bytearray(self.value))", new="        tag.set_app_data(Tag.dateAppTag, bytearray(v & 0x7F if i == 3 else v for i, v in enumerate(self.value)))"),
]

MUTANTS += [
    # ---- C14
    dict(id="c14-no-heapify", props=["C14"], file="task.py", old="                task.isScheduled = False\n                heapify(self.tasks)\n", new="                task.isScheduled = False\n"),
    dict(id="c14-no-counter", props=["C14"], file="task.py", old="heappush( self.tasks, (task.taskTime, next(self.counter), task) )", new="heappush( self.tasks, (task.taskTime, -next(self.counter), task) )"),
    dict(id="c14-when-lt", props=["C14"], file="task.py", old="            if when <= now:\n                # pull it off", new="            if when < now:\n                # pull it off"),
    dict(id="c14-no-suspend-on-reinstall", props=["C14"], file="task.py", old="        if task.isScheduled:\n            self.suspend_task(task)\n", new=""),
    dict(id="c14-recurring-on-slot", props=["C14"], file="task.py", old="            now = _task_manager.get_time() + 0.000001\n", new="            now = _task_manager.get_time() - 0.000001\n"),
    dict(id="c14-early", props=["C14"], file="task.py", old="            if when <= now:\n                # pull it off", new="            if when <= now + 0.25:\n                # pull it off"),
    dict(id="c14-deferred-reversed", props=["C14"], file="core.py", old="                fnlist = deferredFns\n                deferredFns = []\n\n                # call the functions\n                for fn, args, kwargs in fnlist:\n                    if _debug: run_once", new="                fnlist = deferredFns[::-1]\n                deferredFns = []\n\n                # call the functions\n                for fn, args, kwargs in fnlist:\n                    if _debug: run_once"),
]

MUTANTS += [
    # ---- C19
    dict(id="c19-no-displacement", props=["C19"], file="netservice.py", old="        # remove the dnets from other router(s) and paths\n        if other_routers:", new="        # remove the dnets from other router(s) and paths\n        if other_routers and False:"),
    dict(id="c19-renumber-forgets-paths", props=["C19"], file="netservice.py", old="                self.path_info[(new_snet, dnet)] = self.path_info.pop((old_snet, dnet))", new="                self.path_info.pop((old_snet, dnet))"),
    dict(id="c19-delete-keeps-dnets", props=["C19"], file="netservice.py", old="                    del router_info.dnets[dnet]\n                    del self.path_info[(snet, dnet)]\n                    if _debug: RouterInfoCache._debug(\"    - del path: %r -> %r via %r\", snet, dnet, router_info.address)\n                if not router_info.dnets:\n                    del self.routers[snet][address]", new="                    del self.path_info[(snet, dnet)]\n                    if _debug: RouterInfoCache._debug(\"    - del path: %r -> %r via %r\", snet, dnet, router_info.address)\n                if not router_info.dnets:\n                    del self.routers[snet][address]"),
    dict(id="c19-sadr-uses-dadr", props=["C19"], file="netservice.py", old="self.router_info_cache.update_router_info(adapter.adapterNet, npdu.pduSource, [snet])", new="self.router_info_cache.update_router_info(adapter.adapterNet, npdu.pduDestination, [snet])"),
    dict(id="c19-existing-keeps-old-path", props=["C19"], file="netservice.py", old="                if dnet not in existing_router_info.dnets:\n                    self.path_info[(snet, dnet)] = existing_router_info", new="                if dnet not in existing_router_info.dnets and len(existing_router_info.dnets) < 2:\n                    self.path_info[(snet, dnet)] = existing_router_info"),
]

MUTANTS += [
    # ---- C05
    dict(id="c05-offset-plus-one", props=["C05"], file="appservice.py", old="        offset = indx * self.segmentSize\n", new="        offset = indx * self.segmentSize + (1 if indx > 2 else 0)\n"),
    dict(id="c05-in-window-le", equivalent="an ack exactly one window beyond the first unacknowledged segment refers to a segment not yet sent; no honest peer produces it", props=["C05"], file="appservice.py", old="        rslt = ((seqA - seqB + 256) % 256) < self.actualWindowSize", new="        rslt = ((seqA - seqB + 256) % 256) <= self.actualWindowSize"),
    dict(id="c05-seq-no-mod", props=["C05"], file="appservice.py", old="            segAPDU.apduSeq = indx % 256                       # sequence number", new="            segAPDU.apduSeq = indx % 255                       # sequence number"),
    dict(id="c05-fill-window-plus-one", props=["C05"], file="appservice.py", old="        for ix in range(self.actualWindowSize):\n            apdu = self.get_segment(seqNum + ix)", new="        for ix in range(self.actualWindowSize + 1):\n            apdu = self.get_segment(seqNum + ix)"),
    dict(id="c05-dup-segment-appended", props=["C05"], file="appservice.py", old="        # proper segment number\n        if apdu.apduSeq != (self.lastSequenceNumber + 1) % 256:\n            if _debug: ServerSSM", new="        # proper segment number\n        if apdu.apduSeq not in ((self.lastSequenceNumber + 1) % 256, self.lastSequenceNumber) or self.lastSequenceNumber == 0 and apdu.apduSeq == 0:\n            if _debug: ServerSSM"),
    dict(id="c05-mor-le", props=["C05"], file="appservice.py", old="            segAPDU.apduMor = (indx < (self.segmentCount - 1)) # more follows", new="            segAPDU.apduMor = (indx <= (self.segmentCount - 1)) and (self.segmentCount != 3 or indx < 2) # more follows"),
    dict(id="c05-client-nak-wrong-seq", props=["C05"], file="appservice.py", old="            segack = SegmentAckPDU(1, 0, self.invokeID, self.lastSequenceNumber, self.actualWindowSize)", new="            segack = SegmentAckPDU(1, 0, self.invokeID, apdu.apduSeq, self.actualWindowSize)"),
]

MUTANTS += [
    # ---- C04
    dict(id="c04-terminal-keeps-transaction", props=["C04"], file="appservice.py", old="        if (newState == COMPLETED) or (newState == ABORTED):\n            if _debug: ClientSSM._debug(\"    - remove from active transactions\")\n            self.ssmSAP.clientTransactions.remove(self)", new="        if (newState == COMPLETED):\n            if _debug: ClientSSM._debug(\"    - remove from active transactions\")\n            self.ssmSAP.clientTransactions.remove(self)"),
    dict(id="c04-retry-never-counted", props=["C04"], file="appservice.py", old="            self.retryCount += 1\n\n            # save the retry count", new="            self.retryCount += 0\n\n            # save the retry count"),
    dict(id="c04-timeout-abort-and-retry", props=["C04"], file="appservice.py", old="            abort = self.abort(AbortReason.noResponse)\n            self.response(abort)\n\n    def segmented_confirmation(self, apdu):", new="            abort = self.abort(AbortReason.noResponse)\n            self.response(abort)\n            self.response(abort)\n\n    def segmented_confirmation(self, apdu):"),
    dict(id="c04-no-stop-timer", props=["C04"], file="appservice.py", old="        # stop any current timer\n        self.stop_timer()\n", new="        # stop any current timer\n        if newState != ABORTED: self.stop_timer()\n"),
    dict(id="c04-server-abort-keeps-tr", props=["C04"], file="appservice.py", old="    def segmented_request_timeout(self):\n        if _debug: ServerSSM._debug(\"segmented_request_timeout\")\n\n        # give up\n        self.set_state(ABORTED)", new="    def segmented_request_timeout(self):\n        if _debug: ServerSSM._debug(\"segmented_request_timeout\")\n\n        # give up\n        self.state = ABORTED"),
    dict(id="c04-iocb-complete-guard", props=["C04"], file="app.py", old="        if not queue.ioQueue.queue and not queue.active_iocb:\n            if _debug: ApplicationIOController._debug(\"    - queue is empty\")\n            del self.queue_by_address[address]", new="        if not queue.ioQueue.queue and queue.active_iocb:\n            if _debug: ApplicationIOController._debug(\"    - queue is empty\")\n            del self.queue_by_address[address]"),
]

MUTANTS += [
    # ---- C12
    dict(id="c12-window-max", props=["C12"], file="appservice.py", old="        self.actualWindowSize = min(apdu.apduWin, self.ssmSAP.proposedWindowSize)\n        if _debug: ServerSSM", new="        self.actualWindowSize = max(apdu.apduWin, self.ssmSAP.proposedWindowSize)\n        if _debug: ServerSSM"),
    dict(id="c12-maxsegs-ge", props=["C12"], file="appservice.py", old="if (self.maxSegmentsAccepted is not None) and (self.segmentCount > self.maxSegmentsAccepted):", new="if (self.maxSegmentsAccepted is not None) and (self.segmentCount > self.maxSegmentsAccepted + 1):"),
    dict(id="c12-sa-ignored", props=["C12"], file="appservice.py", old="                if not self.segmented_response_accepted:", new="                if not self.segmented_response_accepted and self.segmentCount > 3:"),
    dict(id="c12-server-own-maxapdu", props=["C12"], file="appservice.py", old="        self.maxApduLengthAccepted = decode_max_apdu_length_accepted(apdu.apduMaxResp)\n", new="        self.maxApduLengthAccepted = max(self.maxApduLengthAccepted, decode_max_apdu_length_accepted(apdu.apduMaxResp))\n"),
    dict(id="c12-client-ignores-peer-seg", props=["C12"], file="appservice.py", old="            elif self.device_info.segmentationSupported not in ('segmentedReceive', 'segmentedBoth'):", new="            elif self.device_info.segmentationSupported not in ('segmentedReceive', 'segmentedBoth', 'segmentedTransmit'):"),
    dict(id="c12-unseg-header-3", props=["C12"], file="appservice.py", old="        if len(apdu.pduData) <= self.segmentSize - 4:", new="        if len(apdu.pduData) <= self.segmentSize - 3:"),
]

MUTANTS += [
    # ---- C11
    dict(id="c11-next-id-ignores-address", props=["C11"], file="appservice.py", old="                if (invokeID == tr.invokeID) and (addr == tr.pdu_address):\n                    break\n            else:\n                break", new="                if (invokeID == tr.invokeID) and (addr != tr.pdu_address):\n                    break\n            else:\n                break"),
    dict(id="c11-reply-lookup-id-only", props=["C11"], file="appservice.py", old="            # find the client transaction this is acking\n            for tr in self.clientTransactions:\n                if (apdu.apduInvokeID == tr.invokeID) and (apdu.pduSource == tr.pdu_address):", new="            # find the client transaction this is acking\n            for tr in self.clientTransactions:\n                if (apdu.apduInvokeID == tr.invokeID):"),
    dict(id="c11-await-response-forwards-duplicate", props=["C11"], file="appservice.py", old="        if isinstance(apdu, ConfirmedRequestPDU):\n            if _debug: ServerSSM._debug(\"    - client is trying this request again\")\n", new="        if isinstance(apdu, ConfirmedRequestPDU):\n            if _debug: ServerSSM._debug(\"    - client is trying this request again\")\n            self.request(apdu)\n"),
    dict(id="c11-wrap-at-255", equivalent="never using ID 255 keeps every live ID unique; the property does not require all 256 values to be used", props=["C11"], file="appservice.py", old="            self.nextInvokeID = (self.nextInvokeID + 1) % 256\n", new="            self.nextInvokeID = (self.nextInvokeID + 1) % 255\n"),
    dict(id="c11-no-in-use-check", props=["C11"], file="appservice.py", old="                    if (apdu.apduInvokeID == tr.invokeID) and (apdu.pduDestination == tr.pdu_address):\n                        raise RuntimeError(\"invoke ID in use\")", new="                    if (apdu.apduInvokeID == tr.invokeID) and (apdu.pduDestination == tr.pdu_address) and apdu.apduInvokeID > 3:\n                        raise RuntimeError(\"invoke ID in use\")"),
    dict(id="c11-server-dup-by-id-only", props=["C11"], file="appservice.py", old="            # find duplicates of this request\n            for tr in self.serverTransactions:\n                if (apdu.apduInvokeID == tr.invokeID) and (apdu.pduSource == tr.pdu_address):", new="            # find duplicates of this request\n            for tr in self.serverTransactions:\n                if (apdu.apduInvokeID == tr.invokeID):"),
    dict(id="c11-abort-lookup-id-only", props=["C11"], file="appservice.py", old="            if apdu.apduSrv:\n                for tr in self.clientTransactions:\n                    if (apdu.apduInvokeID == tr.invokeID) and (apdu.pduSource == tr.pdu_address):\n                        break\n                else:\n                    return\n\n                # send the packet on to the transaction\n                tr.confirmation(apdu)\n            else:\n                for tr in self.serverTransactions:\n                    if (apdu.apduInvokeID == tr.invokeID) and (apdu.pduSource == tr.pdu_address):\n                        break\n                else:\n                    return\n\n                # send the packet on to the transaction\n                tr.indication(apdu)\n\n        elif isinstance(apdu, SegmentAckPDU):", new="            if apdu.apduSrv:\n                for tr in self.clientTransactions:\n                    if (apdu.apduInvokeID == tr.invokeID):\n                        break\n                else:\n                    return\n\n                # send the packet on to the transaction\n                tr.confirmation(apdu)\n            else:\n                for tr in self.serverTransactions:\n                    if (apdu.apduInvokeID == tr.invokeID) and (apdu.pduSource == tr.pdu_address):\n                        break\n                else:\n                    return\n\n                # send the packet on to the transaction\n                tr.indication(apdu)\n\n        elif isinstance(apdu, SegmentAckPDU):"),
]

MUTANTS += [
    # ---- C10
    dict(id="c10-no-reject-handler", props=["C10"], file="appservice.py", old="                except RejectException as err:\n                    ApplicationServiceAccessPoint._debug(\"    - decoding reject: %r\", err)\n                    error_found = err", new="                except RejectException as err:\n                    ApplicationServiceAccessPoint._debug(\"    - decoding reject: %r\", err)\n                    return"),
    dict(id="c10-execution-error-swallowed", props=["C10"], file="app.py", old="            if isinstance(apdu, ConfirmedRequestPDU):\n                resp = Error(errorClass=err.errorClass, errorCode=err.errorCode, context=apdu)\n                self.response(resp)", new="            if isinstance(apdu, ConfirmedRequestPDU) and err.errorCode != 'unknownObject':\n                resp = Error(errorClass=err.errorClass, errorCode=err.errorCode, context=apdu)\n                self.response(resp)"),
    dict(id="c10-reply-previous-invoke", props=["C10"], file="apdu.py", old="        self.apduInvokeID = context.apduInvokeID\n", new="        self.apduInvokeID = context.apduInvokeID if context.apduInvokeID % 7 else (context.apduInvokeID + 1) % 256\n"),
    dict(id="c10-reject-keeps-transaction", props=["C10"], file="appservice.py", old="        if (apdu.apduType == SimpleAckPDU.pduType) or (apdu.apduType == ErrorPDU.pduType) or (apdu.apduType == RejectPDU.pduType):\n            if _debug: ServerSSM._debug(\"    - simple ack, error, or reject\")\n\n            # transaction completed\n            self.set_state(COMPLETED)", new="        if (apdu.apduType == SimpleAckPDU.pduType) or (apdu.apduType == ErrorPDU.pduType) or (apdu.apduType == RejectPDU.pduType):\n            if _debug: ServerSSM._debug(\"    - simple ack, error, or reject\")\n\n            # transaction completed\n            if apdu.apduType != RejectPDU.pduType: self.set_state(COMPLETED)"),
    dict(id="c10-unknown-service-silent", props=["C10"], file="appservice.py", old="            if not atype:\n                if _debug: ApplicationServiceAccessPoint._debug(\"    - no confirmed request decoder\")\n                error_found = UnrecognizedService()", new="            if not atype:\n                if _debug: ApplicationServiceAccessPoint._debug(\"    - no confirmed request decoder\")\n                if apdu.apduService > 200: return\n                error_found = UnrecognizedService()"),
    dict(id="c10-rpm-unknown-object-raises", props=["C10"], file="service/object.py", old="    def do_ReadPropertyMultipleRequest(self, apdu):", new="    def do_ReadPropertyMultipleRequest(self, apdu):\n        if len(apdu.listOfReadAccessSpecs) > 2: return"),
]

MUTANTS += [
    # ---- C17
    dict(id="c17-range-16", props=["C17"], file="local/object.py", old="            for i in range(1, 17):\n                priority_value = priority_array[i]", new="            for i in range(1, 16):\n                priority_value = priority_array[i]"),
    dict(id="c17-relinquish-keeps-value", props=["C17"], file="local/object.py", old="                        priority_value.null = value\n                        setattr(priority_value, _Commando._pv_choice, None)", new="                        priority_value.null = None if arrayIndex == 3 else value\n                        setattr(priority_value, _Commando._pv_choice, None)"),
    dict(id="c17-default-priority-8", props=["C17"], file="local/object.py", old="                if priority is None:\n                    priority = 16", new="                if priority is None:\n                    priority = 8"),
    dict(id="c17-bounds-ge-16", props=["C17"], file="local/object.py", old="                    if (arrayIndex < 1) or (arrayIndex > 16):", new="                    if (arrayIndex < 1) or (arrayIndex >= 16):"),
    dict(id="c17-slot0-accepted", equivalent="index 0 then falls into the 1..16 bounds check and is still refused (with invalidArrayIndex)", props=["C17"], file="local/object.py", old="                    if arrayIndex == 0:\n                        raise ExecutionError(\n                            errorClass=\"property\", errorCode=\"writeAccessDenied\"\n                        )", new="                    if arrayIndex == 0 and False:\n                        raise ExecutionError(\n                            errorClass=\"property\", errorCode=\"writeAccessDenied\"\n                        )"),
    dict(id="c17-no-change-shortcut", props=["C17"], file="local/object.py", old="                if value == current_value:\n                    if _debug:\n                        Commandable._debug(\"    - no present value change\")", new="                if value == current_value or (arrayIndex == 9 and not value):\n                    if _debug:\n                        Commandable._debug(\"    - no present value change\")"),
]
