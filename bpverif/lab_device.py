"""A real BACnet device (application with the stock service mix-ins and a few objects) on the StackLab LAN,
plus helpers to build request frames with the independent codecs.  Used by C10, C15, C16, C17."""
from . import clock as VC
from .lab_stack import StackLab, lib as lablib
from .ref import apci as RA, npci as RN

_dev = None


def device_classes():
    global _dev
    if _dev is None:
        L = lablib()
        from bacpypes.service.device import WhoIsIAmServices, DeviceCommunicationControlServices
        from bacpypes.service.object import ReadWritePropertyServices, ReadWritePropertyMultipleServices
        from bacpypes.service.cov import ChangeOfValueServices

        class DeviceApp(L.app.ApplicationIOController, WhoIsIAmServices, ReadWritePropertyServices, ReadWritePropertyMultipleServices, ChangeOfValueServices):
            _startup_disabled = True

            record_iam = False        # an application that keeps what peers announce (as the comment in do_IAmRequest suggests it should)

            def __init__(self, device):
                L.app.ApplicationIOController.__init__(self, device)

            def do_IAmRequest(self, apdu):
                WhoIsIAmServices.do_IAmRequest(self, apdu)
                if self.record_iam:
                    self.deviceInfoCache.iam_device_info(apdu)

        class ClientApp(L.app.Application):
            _startup_disabled = True

            def __init__(self, device):
                L.app.Application.__init__(self, device)
                self.got = []          # confirmations
                self.ind = []          # indications (e.g. COV notifications)
                self.auto_ack = True

            def confirmation(self, apdu):
                self.got.append((VC.clk.now, apdu))

            def indication(self, apdu):
                self.ind.append((VC.clk.now, apdu))
                if isinstance(apdu, L.apdu.ConfirmedRequestPDU) and self.auto_ack:
                    self.response(L.apdu.SimpleAckPDU(context=apdu))
        _dev = (DeviceApp, ClientApp)
    return _dev


def populate(stack):
    """a handful of ordinary objects"""
    from bacpypes.object import AnalogValueObject, BinaryValueObject, MultiStateValueObject, CharacterStringValueObject
    app = stack.app
    objs = [
        AnalogValueObject(objectIdentifier=("analogValue", 1), objectName="av1", presentValue=12.5, statusFlags=[0, 0, 0, 0], covIncrement=1.0, units="degreesCelsius"),
        BinaryValueObject(objectIdentifier=("binaryValue", 1), objectName="bv1", presentValue="inactive", statusFlags=[0, 0, 0, 0]),
        MultiStateValueObject(objectIdentifier=("multiStateValue", 1), objectName="msv1", presentValue=2, numberOfStates=4, statusFlags=[0, 0, 0, 0]),
        CharacterStringValueObject(objectIdentifier=("characterstringValue", 1), objectName="csv1", presentValue="hello", statusFlags=[0, 0, 0, 0]),
    ]
    for o in objs:
        app.add_object(o)
    return objs


def apdu_body(req):
    """service parameters of a request object, encoded by the library (harness-side seed construction)"""
    L = lablib()
    x = L.apdu.ConfirmedRequestPDU()
    req.encode(x)
    return bytes(x.pduData), x.apduService


def request_frame(invoke, service, body, maxresp=5, maxsegs=0, sa=False, er=True):
    return RN.encode(dict(msg=None, dadr=None, sadr=None, er=er, prio=0, hop=None,
                          data=RA.encode(dict(type=RA.CONF, seg=False, mor=False, sa=sa, maxsegs=maxsegs, maxresp=maxresp,
                                              invoke=invoke, service=service, data=body))))


def iam_frame(instance, max_apdu, segmentation, vendor=999, sadr=None):
    """an I-Am (unconfirmed service 0) built with the reference encoders"""
    from .ref import asn1 as R1
    def uns(v):
        n = max(1, (v.bit_length() + 7) // 8)
        return v.to_bytes(n, "big")
    body = R1.encode_tag((R1.APP, R1.OID, 4, R1.enc_oid(8, instance))) + R1.encode_tag((R1.APP, R1.UNSIGNED, len(uns(max_apdu)), uns(max_apdu))) + \
        R1.encode_tag((R1.APP, R1.ENUM, 1, bytes([segmentation]))) + R1.encode_tag((R1.APP, R1.UNSIGNED, len(uns(vendor)), uns(vendor)))
    return RN.encode(dict(msg=None, dadr=None, sadr=sadr, er=False, prio=0, hop=None, data=bytes([0x10, 0x00]) + body))
