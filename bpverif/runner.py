"""Runner: tiers, sharding, collection of failures by root-cause signature,
shrinking, replay files, known findings, evidence, exit codes.

A property module (bpverif/props/cNN.py) provides

    ID, LEVEL, RULE, ASSUMPTIONS, DESIGN_REF
    plan(tier, seed) -> [spec, ...]          JSON-able shard descriptions
    run(spec, ctx)                            generate cases, call ctx.check(case) / ctx.bulk(...)
    judge(case) -> Verdict                    the plain oracle on one JSON-able case

Exit codes: 0 held (plus KNOWN-FINDING lines), 1 VIOLATION, 2 harness error.
"""
import os, sys, json, time, hashlib, importlib, traceback, argparse, collections
import multiprocessing

from . import boot

_OUT = os.environ.get("BPVERIF_OUT") or boot.VERIF     # mutant runs write elsewhere
EVIDENCE_DIR = os.path.join(_OUT, "evidence")
REPLAY_DIR = os.path.join(_OUT, "replays")
FINDINGS = os.path.join(boot.VERIF, "findings", "known_findings.json")
NCPU = int(os.environ.get("BPVERIF_JOBS", "16"))


class Verdict(object):
    """Result of judging one case."""
    __slots__ = ("fails", "nontrivial", "labels", "key")

    def __init__(self, fails=None, nontrivial=False, labels=(), key=None):
        self.fails = fails or []          # list of (signature, message)
        self.nontrivial = nontrivial
        self.labels = labels
        self.key = key                    # what makes the case distinct (default: the case)


class StopShard(Exception):
    """raised inside a shard to end it early (after repeated stalls); the results so far are kept"""


class Stall(BaseException):
    """raised by the per-case watchdog: the code under test did not return"""


def _stall_handler(signum, frame):
    # some loops in the code under test (asyncore's dispatcher) swallow every exception: keep knocking
    import signal
    signal.setitimer(signal.ITIMER_REAL, 0.2)
    raise Stall()


class watchdog(object):
    """`with watchdog(10): ...` -- raises Stall inside the block if it runs longer than `seconds` of real time.
    Only for blocks whose normal cost is many orders of magnitude below the limit."""

    def __init__(self, seconds):
        self.seconds = seconds

    def __enter__(self):
        import signal
        signal.signal(signal.SIGALRM, _stall_handler)
        signal.setitimer(signal.ITIMER_REAL, self.seconds)

    def __exit__(self, *exc):
        import signal
        signal.setitimer(signal.ITIMER_REAL, 0)
        return False


class tracing_on(object):
    """the library's debug tracing switched on in every loaded bacpypes module (what --debug does) for the duration"""

    def __enter__(self):
        import logging
        mods = [m for n, m in list(sys.modules.items()) if n.startswith("bacpypes") and hasattr(m, "_debug")]
        self.old = [(m, m._debug) for m in mods]
        self.lvl = logging.getLogger("bacpypes").level
        for m in mods:
            m._debug = 1
        logging.getLogger("bacpypes").setLevel(logging.DEBUG)
        return self

    def __exit__(self, *a):
        import logging
        for m, o in self.old:
            m._debug = o
        logging.getLogger("bacpypes").setLevel(self.lvl)
        return False


def traced(judge):
    """wrap a judge: a case carrying "dbg" is judged with the library's debug tracing switched on in every bacpypes module
    (tracing must not change behaviour) and labelled accordingly"""
    def run(case):
        if not (isinstance(case, dict) and case.get("dbg")):
            return judge(case)
        with tracing_on():
            v = judge(dict((k, x) for k, x in case.items() if k != "dbg"))
        v.labels = tuple(v.labels) + ("tracing-on",)
        return v
    return run


def h64(obj):
    if not isinstance(obj, (bytes, bytearray)):
        obj = json.dumps(obj, sort_keys=True, default=repr).encode()
    return int.from_bytes(hashlib.blake2b(obj, digest_size=8).digest(), "big")


def case_size(case):
    return len(json.dumps(case, sort_keys=True, default=repr))


class Ctx(object):
    """Per-shard collector."""

    def __init__(self, mod, tier, seed, shard, known_open):
        self.mod = mod
        self.tier = tier
        self.seed = seed
        self.shard = shard
        self.known_open = known_open      # set of signature strings
        self.evaluations = 0
        self.nt_hashes = set()
        self.nt_bulk = 0
        self.labels = collections.Counter()
        self.samples = []
        self.failures = {}                # signature -> dict(case, message, size, count)
        self.excluded_known = collections.Counter()
        self.exhaustive = []              # names of sub-domains enumerated completely
        self.notes = {}
        self.recent = collections.deque(maxlen=200)  # cases judged before a failure (for history-dependent defects)
        self.trail = collections.deque(maxlen=200)   # raw items of tight loops; converted by fail(..., trail_case=fn)

    # -- counting ---------------------------------------------------------
    tracing = False       # set per shard from spec["tracing"]: every case of the shard is judged with the library's debug tracing on

    def check(self, case, judge=None):
        if self.tracing and isinstance(case, dict) and "dbg" not in case:
            case = dict(case, dbg=1)
        """Judge one case with the module's oracle, count it, collect failures.
        Never raises for a property failure (collect mode)."""
        v = traced(judge or self.mod.judge)(case)
        self.recent.append(case)
        self.evaluations += 1
        for lab in v.labels:
            self.labels[lab] += 1
        if "stall" in v.labels:
            for sig, msg in v.fails:
                self.fail(case, sig, msg)
            if self.labels["stall"] >= 2:
                raise StopShard()          # every further case would cost the full watchdog again
            return v
        if v.nontrivial:
            hv = h64(v.key if v.key is not None else dict((k, x) for k, x in case.items() if k != "dbg") if isinstance(case, dict) else case)
            if hv not in self.nt_hashes:
                self.nt_hashes.add(hv)
                n = len(self.nt_hashes)
                if len(self.samples) < 4 and (n & (n - 1)) == 0 and case_size(case) < 1500:
                    self.samples.append(case)
        for sig, msg in v.fails:
            self.fail(case, sig, msg)
        return v

    def bulk(self, evaluations, nontrivial_distinct=0, label=None, sample=None):
        """Account for a tight enumeration loop whose cases are distinct by construction."""
        self.evaluations += evaluations
        if not self.tracing:       # a traced repeat of an enumeration adds no distinct case
            self.nt_bulk += nontrivial_distinct
        if label:
            self.labels[label] += evaluations
        if self.tracing:
            self.labels["tracing-on"] += evaluations
        if sample is not None and len(self.samples) < 6:
            self.samples.append(sample)

    def fail(self, case, sig, msg, trail_case=None):
        if self.tracing and isinstance(case, dict) and "dbg" not in case:
            case = dict(case, dbg=1)
        if sig in self.known_open:
            self.excluded_known[sig] += 1
            return
        size = case_size(case)
        cur = self.failures.get(sig)
        if cur is None:
            self.failures[sig] = dict(case=case, message=str(msg)[:600], size=size, count=1,
                                      history=self._history(case, trail_case))
        else:
            cur["count"] += 1
            if size < cur["size"]:
                cur.update(case=case, message=str(msg)[:600], size=size,
                           history=self._history(case, trail_case))

    def _history(self, case, trail_case):
        if trail_case is not None:
            h = [trail_case(x) for x in self.trail]
        else:
            h = list(self.recent)
        if h and h[-1] == case:
            h = h[:-1]
        return h

    def mark_exhaustive(self, name):
        self.exhaustive.append(name)

    # -- hypothesis -------------------------------------------------------
    def hseed(self, salt=0):
        return (self.seed * 1000003 + self.shard * 1009 + salt) & 0x7FFFFFFF

    def settings(self, max_examples, shrink=False, **kw):
        from hypothesis import settings, HealthCheck, Phase
        phases = (Phase.generate, Phase.shrink) if shrink else (Phase.generate,)
        return settings(max_examples=max_examples, database=None, deadline=None,
                        derandomize=False, report_multiple_bugs=False, phases=phases,
                        suppress_health_check=list(HealthCheck), **kw)

    def for_all(self, strategy, max_examples, salt=0, judge=None, to_case=None):
        """Drive `strategy` (which yields JSON-able cases) through ctx.check.
        Afterwards shrink each new signature with Hypothesis' shrinker."""
        from hypothesis import given, seed
        before = set(self.failures)

        @seed(self.hseed(salt))
        @self.settings(max_examples)
        @given(strategy)
        def drive(x):
            self.check(to_case(x) if to_case else x, judge)

        drive()
        new = [s for s in self.failures if s not in before]
        for sig in new[:3]:
            self.shrink(strategy, sig, max_examples, salt, judge, to_case)

    def shrink(self, strategy, sig, max_examples, salt=0, judge=None, to_case=None):
        """Re-run the same seeded search raising only on `sig`; Hypothesis shrinks;
        the last failing example it replays is the minimal one."""
        from hypothesis import given, seed
        j = traced(judge or self.mod.judge)
        last = {}

        class Found(Exception):
            pass

        @seed(self.hseed(salt))
        @self.settings(max_examples, shrink=True)
        @given(strategy)
        def drive(x):
            if time.time() - t0 > budget:
                return                      # out of time: every further candidate "passes", the shrinker stops by itself
            case = to_case(x) if to_case else x
            if self.tracing and isinstance(case, dict) and "dbg" not in case:
                case = dict(case, dbg=1)
            v = j(case)
            for s, m in v.fails:
                if s == sig:
                    last["case"], last["msg"] = case, m
                    raise Found()

        if "stall" in sig.split(":"):
            return                          # every failing candidate costs a whole watchdog period: keep the smallest case seen
        budget = 60.0 if self.tier == "quick" else 240.0
        t0 = time.time()
        try:
            drive()
        except Found:
            pass
        except Exception:
            pass
        if "case" in last:
            size = case_size(last["case"])
            cur = self.failures[sig]
            if size <= cur["size"]:
                cur.update(case=last["case"], message=str(last["msg"])[:600], size=size)
            cur["shrunk_s"] = round(time.time() - t0, 2)

    def result(self):
        return dict(evaluations=self.evaluations, nt_hashes=self.nt_hashes, nt_bulk=self.nt_bulk,
                    labels=dict(self.labels), samples=self.samples, failures=self.failures,
                    excluded_known=dict(self.excluded_known), exhaustive=self.exhaustive,
                    notes=self.notes)


def judge_case(mod, case):
    """the module's oracle, plus the generic 'history' wrapper: cases judged in order in one process"""
    if isinstance(case, dict) and case.get("k") == "history":
        fails = []
        last = Verdict()
        for c in case["cases"]:
            last = traced(mod.judge)(c)
            fails.extend(last.fails)
        return Verdict(fails, last.nontrivial, last.labels, last.key)
    return traced(mod.judge)(case)


def _fresh_worker(args):
    modname, case = args
    try:
        boot.boot()
        mod = importlib.import_module(modname)
        v = judge_case(mod, case)
        return ("ok", [(s, str(m)[:600]) for s, m in v.fails])
    except BaseException:
        return ("error", traceback.format_exc())


def fresh_judge(modname, case, timeout=600):
    """judge one case in a freshly forked process (no state left over from other cases)"""
    mp = multiprocessing.get_context("fork")
    pool = mp.Pool(processes=1, maxtasksperchild=1)
    try:
        st, r = pool.apply_async(_fresh_worker, ((modname, case),)).get(timeout)
    except multiprocessing.TimeoutError:
        st, r = "error", "timeout while judging a single case"
    finally:
        pool.terminate()
        pool.join()
    if st != "ok":
        sys.stderr.write("HARNESS-ERROR: oracle raised while judging a saved case:\n%s\n" % r)
        boot.harness_error("oracle raised on a saved case")
    return r


def load_findings():
    try:
        with open(FINDINGS) as f:
            return json.load(f).get("findings", [])
    except FileNotFoundError:
        return []


def _worker(args):
    modname, tier, seed, idx, spec, known_open = args
    t0 = time.time()
    try:
        boot.boot()
        mod = importlib.import_module(modname)
        ctx = Ctx(mod, tier, seed, idx, known_open)
        ctx.tracing = bool(isinstance(spec, dict) and spec.get("tracing"))
        try:
            if ctx.tracing:
                # tight enumeration loops do not go through the judge: the whole shard runs traced
                with tracing_on():
                    mod.run(spec, ctx)
            else:
                mod.run(spec, ctx)
        except StopShard:
            ctx.notes["stopped_early_after_stalls"] = 1
        r = ctx.result()
        r["wall_s"] = time.time() - t0
        r["spec"] = spec
        return ("ok", r)
    except BaseException:
        return ("error", dict(spec=spec, trace=traceback.format_exc()))


def write_replay(pid, sig, info):
    os.makedirs(REPLAY_DIR, exist_ok=True)
    hv = "%016x" % h64([pid, sig])
    path = os.path.join(REPLAY_DIR, "%s-%s.json" % (pid, hv))
    with open(path, "w") as f:
        json.dump(dict(property=pid, signature=sig, message=info.get("message"),
                       occurrences=info.get("count"), case=info["case"]), f, indent=1,
                  sort_keys=True, default=repr)
    return path


def write_evidence(mod, tier, seed, cov, wall, violations, extra_assumptions=()):
    os.makedirs(EVIDENCE_DIR, exist_ok=True)
    ev = dict(property_id=mod.ID, tier=tier, seed=seed, level=mod.LEVEL, coverage=cov,
              assumptions=list(getattr(mod, "ASSUMPTIONS", [])) + list(extra_assumptions),
              wall_s=round(wall, 2), violations=violations)
    path = os.path.join(EVIDENCE_DIR, "%s.json" % mod.ID)
    tmp = path + ".tmp"
    with open(tmp, "w") as f:
        json.dump(ev, f, indent=1, sort_keys=True, default=repr)
    os.replace(tmp, path)
    return path


def run_check(pid, tier, seed):
    t0 = time.time()
    boot.boot()
    modname = "bpverif.props.%s" % pid.lower()
    mod = importlib.import_module(modname)
    findings = [f for f in load_findings() if f["property"] == pid]
    open_f = [f for f in findings if f.get("status") == "open"]
    known_open = set(f["key"] for f in open_f)

    specs = mod.plan(tier, seed)
    jobs = [(modname, tier, seed, i, s, known_open) for i, s in enumerate(specs)]
    timeout = float(os.environ.get("BPVERIF_SHARD_TIMEOUT", "3000" if tier == "quick" else "20000"))
    results, errors = [], []
    if NCPU <= 1 or len(jobs) == 1:
        for j in jobs:
            results.append(_worker(j))
    else:
        mp = multiprocessing.get_context("fork")
        pool = mp.Pool(processes=min(NCPU, len(jobs)), maxtasksperchild=1)
        asyncs = [pool.apply_async(_worker, (j,)) for j in jobs]
        deadline = time.time() + timeout
        for a, j in zip(asyncs, jobs):
            try:
                results.append(a.get(max(1.0, deadline - time.time())))
            except multiprocessing.TimeoutError:
                results.append(("error", dict(spec=j[4], trace="shard exceeded the wall-clock watchdog (inconclusive)")))
        pool.terminate()
        pool.join()

    evaluations = 0
    nt = set()
    nt_bulk = 0
    labels = collections.Counter()
    samples = []
    failures = {}
    excluded = collections.Counter()
    exhaustive = []
    notes = {}
    shard_info = []
    for status, r in results:
        if status != "ok":
            errors.append(r)
            continue
        evaluations += r["evaluations"]
        nt |= r["nt_hashes"]
        nt_bulk += r["nt_bulk"]
        labels.update(r["labels"])
        for s in r["samples"]:
            if len(samples) < 8:
                samples.append(s)
        for sig, info in r["failures"].items():
            cur = failures.get(sig)
            if cur is None:
                failures[sig] = dict(info)
            else:
                cur["count"] += info["count"]
                if info["size"] < cur["size"]:
                    cur.update(case=info["case"], message=info["message"], size=info["size"], history=info.get("history"))
        excluded.update(r["excluded_known"])
        exhaustive.extend(r["exhaustive"])
        for k, v in r["notes"].items():
            if isinstance(v, (int, float)) and isinstance(notes.get(k), (int, float)):
                notes[k] += v
            else:
                notes.setdefault(k, v)
        shard_info.append(dict(shard=r["spec"].get("name", "?"), evaluations=r["evaluations"],
                               wall_s=round(r["wall_s"], 1)))

    if errors:
        for e in errors[:3]:
            sys.stderr.write("HARNESS-ERROR in shard %r:\n%s\n" % (e["spec"], e["trace"]))
        # still write evidence so that the state is visible, but the run is inconclusive
        boot.harness_error("%d shard(s) failed inside the harness" % len(errors))

    # confirm each new signature with the plain oracle in a fresh process before reporting (no flaky alarms);
    # a failure that needs earlier cases in the same process (state left behind by the library) is reported
    # together with the shortest such history we can find
    confirmed = {}
    for sig, info in sorted(failures.items()):
        if sig in [x for x, _ in fresh_judge(modname, info["case"])]:
            confirmed[sig] = info
            continue
        hist = info.get("history") or []
        found = None
        if hist:
            def repro(h):
                return sig in [x for x, _ in fresh_judge(modname, dict(k="history", cases=h + [info["case"]]))]
            if repro(hist):
                # shrink the history: drop halves, then single elements (bounded number of fresh-process trials)
                trials = 0
                chunk = max(1, len(hist) // 2)
                while chunk >= 1 and trials < 80:
                    i = 0
                    progressed = False
                    while i < len(hist) and trials < 80:
                        cand = hist[:i] + hist[i + chunk:]
                        trials += 1
                        if repro(cand):
                            hist = cand
                            progressed = True
                        else:
                            i += chunk
                    if chunk == 1 and not progressed:
                        break
                    chunk = chunk // 2 if chunk > 1 else (1 if progressed else 0)
                found = dict(k="history", cases=hist + [info["case"]])
        if found:
            info = dict(info, case=found, message="[needs the preceding case(s) in the same process] " + info["message"])
            confirmed[sig] = info
        else:
            notes.setdefault("unconfirmed_signatures", [])
            notes["unconfirmed_signatures"].append(sig)
    if notes.get("unconfirmed_signatures"):
        # a failure that does not reproduce from its saved case is a harness problem
        sys.stderr.write("HARNESS-ERROR: failures did not reproduce from saved cases: %r\n"
                         % notes["unconfirmed_signatures"][:5])

    # known findings: replay each open witness
    known_lines = []
    for f in open_f:
        reproduced = None
        w = f.get("witness")
        if w:
            try:
                with open(os.path.join(boot.VERIF, "findings", "witness", w)) as fh:
                    wcase = json.load(fh)["case"]
                reproduced = f["key"] in [x for x, _ in fresh_judge(modname, wcase)]
            except Exception as err:
                reproduced = None
                sys.stderr.write("warning: witness %s could not be replayed: %r\n" % (w, err))
        if reproduced or (reproduced is None and excluded.get(f["key"])):
            known_lines.append("KNOWN-FINDING: property=%s %s [key=%s; excluded %d case(s) this run]"
                               % (pid, f["what"], f["key"], excluded.get(f["key"], 0)))

    cov = dict(evaluations=evaluations, distinct_nontrivial=len(nt) + nt_bulk, rule=mod.RULE,
               samples=samples, exhaustive=bool(exhaustive) and getattr(mod, "ALL_EXHAUSTIVE", False),
               exhaustive_subdomains=sorted(set(exhaustive)), classes=dict(labels),
               excluded_known=dict(excluded), shards=shard_info, notes=notes,
               known_findings_open=[f["key"] for f in open_f],
               violation_signatures=sorted(confirmed))
    wall = time.time() - t0
    write_evidence(mod, tier, seed, cov, wall, len(confirmed))

    for line in known_lines:
        print(line)
    if confirmed:
        for sig, info in sorted(confirmed.items())[:40]:
            path = write_replay(pid, sig, info)
            print("VIOLATION property=%s replay=%s" % (pid, path))
            print("  signature: %s\n  message: %s\n  occurrences: %d" % (sig, info["message"], info["count"]))
        sys.stdout.flush()
        return 1
    if notes.get("unconfirmed_signatures"):
        boot.harness_error("unreproducible failures (see above)")
    print("OK property=%s tier=%s seed=%d evaluations=%d distinct_nontrivial=%d wall=%.1fs"
          % (pid, tier, seed, evaluations, len(nt) + nt_bulk, wall))
    sys.stdout.flush()
    return 0


def run_replay(pid, path):
    boot.boot()
    mod = importlib.import_module("bpverif.props.%s" % pid.lower())
    with open(path) as f:
        doc = json.load(f)
    case = doc["case"] if isinstance(doc, dict) and "case" in doc else doc
    v = judge_case(mod, case)
    if v.fails:
        for sig, msg in v.fails:
            print("  signature: %s\n  message: %s" % (sig, msg))
        print("VIOLATION property=%s replay=%s" % (pid, path))
        return 1
    print("OK property=%s replay=%s (oracle satisfied)" % (pid, path))
    return 0


def main(argv=None):
    ap = argparse.ArgumentParser(prog="bpverif")
    ap.add_argument("property")
    ap.add_argument("--tier", default=os.environ.get("VERIF_TIER") or "quick", choices=["quick", "thorough"])
    ap.add_argument("--seed", type=int, default=None)
    ap.add_argument("--replay")
    a = ap.parse_args(argv)
    seed = a.seed
    if seed is None:
        try:
            seed = int(os.environ.get("VERIF_SEED", "1"))
        except ValueError:
            seed = 1
    pid = a.property.upper()
    try:
        if a.replay:
            rc = run_replay(pid, a.replay)
        else:
            rc = run_check(pid, a.tier, seed)
    except SystemExit:
        raise
    except BaseException:
        sys.stderr.write(traceback.format_exc())
        boot.harness_error("unhandled exception in the harness")
    sys.stdout.flush()
    os._exit(rc)
