"""Virtual time driving the *real* TaskManager.

bacpypes reads the wall clock through `bacpypes.task._time` only; we rebind that
name to a Clock before the singleton TaskManager is created."""
from . import boot


class Clock(object):
    def __init__(self, t0=0.0):
        self.now = t0

    def __call__(self):
        return self.now


clk = None
tm = None


def install(t0=0.0):
    global clk, tm
    boot.boot()
    import itertools
    import bacpypes.task as task
    import bacpypes.core as core
    if clk is None:
        clk = Clock(t0)
        task._time = clk
        tm = task.TaskManager()
        core.taskManager = tm
    reset(t0)
    return clk


def reset(t0=0.0):
    import itertools
    import bacpypes.core as core
    for (_, _, t) in tm.tasks:
        t.isScheduled = False
    tm.tasks[:] = []
    tm.counter = itertools.count()
    core.deferredFns = []
    core.running = False
    clk.now = t0
    boot.swallowed.take()


def pending():
    import bacpypes.core as core
    return bool(core.deferredFns) or bool(tm.tasks)


def settle(max_iter=100000):
    """Run everything due at the current instant (tasks and deferred calls)."""
    import bacpypes.core as core
    n = 0
    while True:
        core.run_once()
        n += 1
        if n > max_iter:
            raise RuntimeError("settle: no fixpoint after %d iterations" % n)
        if core.deferredFns:
            continue
        if tm.tasks and tm.tasks[0][0] <= clk.now:
            continue
        return


def pump(until=None, max_iter=1000000, stay=False):
    """Advance virtual time task by task until `until` (or until nothing is left).
    Returns True if the lab is quiescent (no task, no deferred call).  With stay=True the clock is left at the
    instant of the last activity when the lab becomes quiescent (otherwise it moves on to `until`)."""
    import bacpypes.core as core
    n = 0
    while True:
        n += 1
        if n > max_iter:
            raise RuntimeError("pump: iteration guard hit (%d)" % n)
        core.run_once()
        if core.deferredFns:
            continue
        if not tm.tasks:
            if until is not None and until > clk.now and not stay:
                clk.now = until
            return True
        nxt = tm.tasks[0][0]
        if nxt <= clk.now:
            continue
        if until is not None and nxt > until:
            clk.now = until
            return False
        clk.now = nxt


def advance(dt):
    return pump(clk.now + dt)
