"""StackLab: real bacpypes application stacks on a harness-owned, fault-injecting virtual LAN under virtual time.

    lab = StackLab()
    c = lab.add_stack(1, role="client", ...)      # Application + ASAP + SMAP + NSAP + NSE + vlan.Node
    s = lab.add_stack(2, role="server", ...)
    lab.net.plan = {3: ("drop",), 5: ("dup",), 7: ("delay", 1.5)}
    c.submit(payload, dest=2); lab.run(horizon)
"""
from . import clock as VC
from .ref import apci as RA, npci as RN

_L = None


class _Lib(object):
    pass


def lib():
    global _L
    if _L is None:
        VC.install(0.0)
        L = _Lib()
        from bacpypes import vlan, app, appservice, netservice, apdu, iocb, task, core
        from bacpypes.comm import bind
        from bacpypes.pdu import Address, LocalBroadcast, PDU
        from bacpypes.local.device import LocalDeviceObject
        from bacpypes.primitivedata import OctetString
        from bacpypes.constructeddata import Any
        L.vlan, L.app, L.appservice, L.netservice, L.apdu, L.iocb, L.task, L.core = vlan, app, appservice, netservice, apdu, iocb, task, core
        L.bind, L.Address, L.LocalBroadcast, L.PDU = bind, Address, LocalBroadcast, PDU
        L.LocalDeviceObject, L.OctetString, L.Any = LocalDeviceObject, OctetString, Any

        class _NSE(netservice.NetworkServiceElement):
            _startup_disabled = True
        L.NSE = _NSE

        class FaultyNetwork(vlan.Network):
            """numbers every frame; applies the fault plan; logs (time, index, action, src, dst, octets)"""

            def __init__(self):
                vlan.Network.__init__(self, name="lab", broadcast_address=LocalBroadcast())
                self.plan = {}
                self.silence = None          # (from index k, source mac or None)
                self.counter = 0
                self.log = []
                self.fate = None             # optional callable(index, frame) -> action, for random fault streams
                self.max_frames = 20000

            def process_pdu(self, pdu):
                i = self.counter
                self.counter += 1
                if i > self.max_frames:
                    raise Runaway()
                act = self.plan.get(i)
                if act is None and self.fate is not None:
                    act = self.fate(i, pdu)
                act = tuple(act) if act else ("pass",)
                src = pdu.pduSource.addrAddr[0] if pdu.pduSource is not None and pdu.pduSource.addrAddr else None
                dst = pdu.pduDestination.addrAddr[0] if pdu.pduDestination is not None and pdu.pduDestination.addrAddr else None
                if self.silence is not None and i >= self.silence[0] and (self.silence[1] is None or self.silence[1] == src):
                    act = ("drop",)
                self.log.append(dict(t=VC.clk.now, i=i, act=act, src=src, dst=dst, data=bytes(pdu.pduData)))
                if act[0] == "drop":
                    return
                if act[0] == "delay":
                    t = task.FunctionTask(vlan.Network.process_pdu, self, pdu)
                    t.install_task(delta=float(act[1]))
                    return
                vlan.Network.process_pdu(self, pdu)
                if act[0] == "dup":
                    vlan.Network.process_pdu(self, pdu)
        L.FaultyNetwork = FaultyNetwork
        _L = L
    return _L


class Runaway(BaseException):
    """more frames than any legitimate run of the lab can produce: traffic that never ends in virtual time"""


def pattern(n, salt=0):
    """position-dependent payload: truncation, duplication and reordering are all visible"""
    return bytes(((i * 7) ^ (i >> 8) ^ (i >> 3) ^ salt) & 0xFF for i in range(n))


class Stack(object):
    def __init__(self, lab, mac, app_factory, segmentation="segmentedBoth", max_apdu=1024, max_segs=16, window=2,
                 retries=3, apdu_timeout=3000, seg_timeout=1500, app_timeout=3000):
        L = lib()
        self.lab = lab
        self.mac = mac
        self.address = L.Address(mac)
        # the device object class registers itself on first use
        self.device = L.LocalDeviceObject(
            objectName="dev%d" % mac, objectIdentifier=("device", mac), maxApduLengthAccepted=max_apdu,
            segmentationSupported=segmentation, maxSegmentsAccepted=max_segs, vendorIdentifier=999,
            numberOfApduRetries=retries, apduTimeout=apdu_timeout, apduSegmentTimeout=seg_timeout)
        self.app = app_factory(self.device)
        self.app.stack = self
        self.asap = L.appservice.ApplicationServiceAccessPoint()
        self.smap = L.appservice.StateMachineAccessPoint(self.device)
        self.smap.deviceInfoCache = self.app.deviceInfoCache
        self.smap.proposedWindowSize = window
        self.smap.applicationTimeout = app_timeout
        self.nsap = L.netservice.NetworkServiceAccessPoint()
        self.nse = L.NSE()
        L.bind(self.nse, self.nsap)
        L.bind(self.app, self.asap, self.smap, self.nsap)
        self.node = L.vlan.Node(self.address, lab.net)
        self.nsap.bind(self.node)

    def timers(self):
        """scheduled tasks owned by this stack's transactions"""
        mine = []
        for (when, n, t) in VC.tm.tasks:
            ssm = getattr(t, "ssmSAP", None)
            if ssm is self.smap:
                mine.append(t)
        return mine


class StackLab(object):
    def __init__(self):
        L = lib()
        VC.reset(0.0)
        self.L = L
        self.net = L.FaultyNetwork()
        self.stacks = {}
        # a promiscuous, spoofing attacker/sniffer node
        self.sniffer = None

    def add_stack(self, mac, app_factory, **kw):
        s = Stack(self, mac, app_factory, **kw)
        self.stacks[mac] = s
        return s

    def add_attacker(self, mac=99):
        L = self.L
        from bacpypes.comm import Client

        class Attacker(Client):
            def __init__(self):
                Client.__init__(self)
                self.seen = []

            def confirmation(self, pdu):
                self.seen.append((VC.clk.now, pdu.pduSource, pdu.pduDestination, bytes(pdu.pduData)))
        a = Attacker()
        a.node = L.vlan.Node(L.Address(mac), self.net, promiscuous=True, spoofing=True)
        L.bind(a, a.node)
        a.mac = mac
        self.attacker = a
        return a

    def inject(self, src_mac, dst_mac, octets):
        """put a raw frame on the LAN as if sent by src_mac (dst_mac None = broadcast)"""
        L = self.L
        pdu = L.PDU(bytes(octets), source=L.Address(src_mac), destination=L.LocalBroadcast() if dst_mac is None else L.Address(dst_mac))
        self.attacker.request(pdu)

    def run(self, until=None, max_iter=2000000):
        return VC.pump(until, max_iter, stay=True)

    def settle(self):
        VC.settle()

    @property
    def now(self):
        return VC.clk.now

    def frames(self):
        """decoded view of every frame offered to the LAN: dicts with NPCI/APCI fields"""
        out = []
        for rec in self.net.log:
            d = dict(rec)
            try:
                n = RN.decode(rec["data"])
                d["npci"] = n
                if n["msg"] is None:
                    d["apci"] = RA.decode(n["data"])
            except (RN.Reject, RA.Reject) as err:
                d["undecodable"] = str(err)
            out.append(d)
        return out
