"""Bootstrap: make `import bacpypes` resolve to the working tree, pin the
environment (hash seed, time zone), load third-party deps, capture what the
event loop swallows.  Harness errors exit 2, never a VIOLATION."""
import os, sys, time, logging, subprocess

VERIF = os.path.dirname(os.path.dirname(os.path.abspath(__file__)))
REPO = os.environ.get("BPVERIF_REPO", "/repo")
PY34 = os.path.join(REPO, "py34")
DEPS = os.path.join(VERIF, ".deps")
WHEELS = "/opt/veriftools/wheels"


def harness_error(msg):
    sys.stdout.flush()
    sys.stderr.write("HARNESS-ERROR: %s\n" % (msg,))
    sys.stderr.flush()
    os._exit(2)


def reexec_pinned():
    """PYTHONHASHSEED=0 and TZ=UTC must be in place before the interpreter starts."""
    if os.environ.get("PYTHONHASHSEED") != "0" or os.environ.get("TZ") != "UTC" \
            or os.environ.get("PYTHONDONTWRITEBYTECODE") != "1":
        env = dict(os.environ)
        env["PYTHONHASHSEED"] = "0"
        env["TZ"] = "UTC"
        env["PYTHONDONTWRITEBYTECODE"] = "1"
        os.execve(sys.executable, [sys.executable, "-m", "bpverif"] + sys.argv[1:], env)


def ensure_deps():
    """hypothesis must be importable; install it from the offline wheelhouse if not."""
    if os.path.isdir(DEPS) and DEPS not in sys.path:
        sys.path.append(DEPS)
    try:
        import hypothesis  # noqa
        return
    except ImportError:
        pass
    os.makedirs(DEPS, exist_ok=True)
    r = subprocess.run([sys.executable, "-m", "pip", "install", "--quiet", "--no-index",
                        "--find-links", WHEELS, "--target", DEPS, "hypothesis"],
                       stdout=subprocess.PIPE, stderr=subprocess.STDOUT)
    if DEPS not in sys.path:
        sys.path.append(DEPS)
    try:
        import hypothesis  # noqa
    except ImportError:
        harness_error("hypothesis not importable and offline install failed: %s"
                      % r.stdout.decode(errors="replace")[-400:])


class Swallowed(logging.Handler):
    """Collects exceptions that core.run()/run_once() log and swallow."""

    def __init__(self):
        logging.Handler.__init__(self, level=logging.ERROR)
        self.records = []

    def emit(self, record):
        et = fn = None
        if record.exc_info and record.exc_info[0] is not None:
            et = record.exc_info[0].__name__
            tb = record.exc_info[2]
            while tb is not None:
                code = tb.tb_frame.f_code
                if "bacpypes" in code.co_filename and "bpverif" not in code.co_filename:
                    fn = "%s:%s" % (os.path.basename(code.co_filename), code.co_name)
                tb = tb.tb_next
        try:
            msg = record.getMessage()
        except Exception:
            msg = str(record.msg)
        self.records.append((et, fn, msg[:200]))

    def take(self):
        r, self.records = self.records, []
        return r


swallowed = Swallowed()
_booted = False


def boot():
    global _booted
    if _booted:
        return
    _booted = True
    sys.dont_write_bytecode = True
    os.environ["TZ"] = "UTC"
    time.tzset()
    if not os.path.isdir(os.path.join(PY34, "bacpypes")):
        harness_error("no bacpypes under %s" % PY34)
    sys.path.insert(0, PY34)
    ensure_deps()
    try:
        import bacpypes
    except Exception as err:  # a tree that does not import is not a property violation
        harness_error("cannot import bacpypes from %s: %r" % (PY34, err))
    if not os.path.abspath(bacpypes.__file__).startswith(os.path.abspath(PY34) + os.sep):
        harness_error("bacpypes imported from %s, not from %s" % (bacpypes.__file__, PY34))
    lg = logging.getLogger("bacpypes")
    lg.addHandler(swallowed)
    lg.propagate = False
    # the loop's own logger is "bacpypes.core"; make sure nothing prints
    logging.getLogger().addHandler(logging.NullHandler())
    logging.raiseExceptions = False
