from . import boot
boot.reexec_pinned()
from .runner import main
main()
