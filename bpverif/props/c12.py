"""C12 -- what is sent respects what the peer said it can accept."""
import itertools
from ..runner import Verdict, watchdog, Stall
from .. import txn
from ..lab_stack import pattern
from ..ref import apci as RA
from .c05 import _short_cfg

ID = "C12"
LEVEL = "exploration"
RULE = ("Real client and server stacks exchange a ConfirmedPrivateTransfer over the virtual LAN for the cross product of capabilities: "
        "max-APDU of each side in the six standard sizes, the four segmentation-support values per side, max-segments accepted "
        "{2,4,8,16,32,64,>64}, windows {1,2,8,127}, crossed with request / response lengths around every boundary the pair implies "
        "(k*limit-1, k*limit, k*limit+1 for unsegmented and per-segment header sizes, max-segments*limit +-1), with and without the "
        "client having processed the server's I-Am through DeviceInfoCache.iam_device_info (pairwise-pruned in quick, full in "
        "thorough). Oracle: every LAN frame is decoded by independent NPCI/APCI codecs; a response APDU is never longer than the "
        "max-APDU announced in the request header, is segmented only if the request's segmented-response-accepted bit was set and "
        "into no more segments than the request's max-segments code; with I-Am knowledge a request APDU is never longer than the "
        "I-Am's max-APDU and is segmented only toward a peer that can receive segments; if the message does not fit the requester "
        "gets an abort (apduTooLong / segmentationNotSupported / bufferOverflow), not silence; every window field is in 1..127 and "
        "a segment-ack never carries a larger window than the sender of the segments proposed. Announcement histories (Hypothesis): "
        "I-Ams of three devices moving among three addresses with changing limits, requests arriving from those addresses (segmented or "
        "not, with or without segmented-response-accepted) and requests of boundary lengths sent to them by an application that keeps "
        "I-Ams in its DeviceInfoCache; model = what each ADDRESS announced last (a device that announces from a new address has left "
        "the old one; segmented-response-accepted in a later request means it can receive segments): every request APDU to a known "
        "address is within its max-APDU, segmented only if it can receive segments, else a local abort. Non-trivial: a configuration in "
        "which some limit is binding (segmentation needed, or payload within 8 octets of a limit). Distinct by configuration."
        " Also: a requester that changes the window from ack to ack; only segment 0 before the first ack; retransmissions judged against what the peer has announced by then; the application's maxNpduLength."
        " The window field of every later segment never exceeds the receiver's grant, incl. transfers that wrap the sequence number. One reduced copy of a generated shard runs with the library's debug tracing switched on (label tracing-on).")
ASSUMPTIONS = [
    "APDU length = octets after the NPCI as decoded by bpverif/ref/npci.py (fixed header included, as the standard defines max-APDU-length-accepted)",
    "without I-Am knowledge the requester cannot know the peer's limits: only the window clauses and the response-side clauses are judged for requests then",
    "a fault-free run that ends in a local abort with reason no-response counts as silence from the peer",
]

SEGS = ("segmentedBoth", "segmentedTransmit", "segmentedReceive", "noSegmentation")
SIZES = (50, 128, 206, 480, 1024, 1476)
ABORT_OK = (1, 4, 11)          # bufferOverflow, segmentationNotSupported, apduTooLong


def check(obs):
    c = obs["cfg"]
    mode = "iam" if c["know"] else "blind"
    fails = []
    req_hdr = None                # header fields announced by the request (last seen)
    rsp_segments = set()
    req_segments = set()
    proposed = {}                 # direction -> proposed window of segment 0
    client_acked_response = []    # non-empty once the requester has sent a segment-ack for the response
    granted, seen_seq = {}, {}
    for f in obs["frames"]:
        a = f.get("apci")
        if a is None:
            continue
        L = len(f["npci"]["data"])
        for k in ("win",):
            if k in a and a["type"] in (0, 3, 4) and (a["type"] == 4 or a.get("seg")):
                if not (1 <= a["win"] <= 127):
                    fails.append(("window-out-of-range:%s" % RA.NAMES[a["type"]], "window %d in frame %d (%s)" % (a["win"], f["i"], _short_cfg(c))))
        # the window field of every segment after the first is the window the receiver granted, never the sender's own proposal again
        if a["type"] in (0, 3) and a.get("seg"):
            d_ = "request" if a["type"] == 0 else "response"
            seen_seq[d_] = seen_seq.get(d_, 0) + (1 if a["seq"] not in (0,) or d_ not in seen_seq else 0)
            later = a["seq"] != 0 or seen_seq.get(d_ + ":255")
            if a["seq"] == 255:
                seen_seq[d_ + ":255"] = True
            if later and d_ in granted and a["win"] > granted[d_]:
                fails.append(("segment-window-exceeds-grant:%s" % d_, "%s segment with sequence number %d carries window %d, the receiver granted %d (frame %d, %s)"
                              % (d_, a["seq"], a["win"], granted[d_], f["i"], _short_cfg(c))))
        elif a["type"] == 4:
            granted["request" if f["src"] == 2 else "response"] = a["win"]
        if f["src"] == 1:
            if a["type"] == 0:
                req_hdr = a
                if a.get("seg"):
                    req_segments.add(a["seq"])
                    if a["seq"] == 0:
                        proposed["request"] = a["win"]
                if c["know"]:
                    if L > c["s_apdu"]:
                        fails.append(("request-exceeds-iam-max-apdu:%s:%s" % ("segmented" if a.get("seg") else "unsegmented", _excess(L - c["s_apdu"])),
                                      "request APDU of %d octets to a peer whose I-Am says %d (frame %d, %s)" % (L, c["s_apdu"], f["i"], _short_cfg(c))))
                    if a.get("seg") and c["s_seg"] not in ("segmentedReceive", "segmentedBoth"):
                        fails.append(("request-segmented-to-peer-that-cannot-receive:%s" % c["s_seg"], "frame %d (%s)" % (f["i"], _short_cfg(c))))
            elif a["type"] == 4 and "response" in proposed:
                if (f.get("act") or ("ok",))[0] not in ("drop", "delay"):
                    client_acked_response.append(f["i"])         # (an ack that was lost or is still under way has told the responder nothing)
                if a["win"] > proposed["response"]:
                    fails.append(("segack-window-exceeds-proposal:client", "client acks with window %d, the server proposed %d (%s)" % (a["win"], proposed["response"], _short_cfg(c))))
        elif f["src"] == 2:
            if req_hdr is None:
                continue
            limit = RA.MAX_APDU.get(req_hdr["maxresp"])
            if a["type"] in (2, 3, 5, 6, 7) and limit is not None and L > limit:
                fails.append(("response-exceeds-request-max-apdu:%s:%s" % ("segmented" if a.get("seg") else RA.NAMES[a["type"]], _excess(L - limit)),
                              "response APDU of %d octets although the request announced %d (frame %d, %s)" % (L, limit, f["i"], _short_cfg(c))))
            if a["type"] == 3 and a.get("seg"):
                rsp_segments.add(a["seq"])
                if a["seq"] == 0:
                    proposed["response"] = a["win"]
                elif not client_acked_response:
                    # until the requester has acknowledged the first segment it has not said which window it accepts: only segment 0 may be on its way
                    fails.append(("response-segments-before-first-ack", "response segment %d (window field %d) sent before any segment-ack of the requester (frame %d, %s)"
                                  % (a["seq"], a["win"], f["i"], _short_cfg(c))))
                if not req_hdr["sa"]:
                    fails.append(("response-segmented-without-sa-bit", "frame %d (%s)" % (f["i"], _short_cfg(c))))
                ms = RA.MAX_SEGS.get(req_hdr["maxsegs"])
                if isinstance(ms, int) and len(rsp_segments) > ms:
                    fails.append(("response-exceeds-max-segments", "%d segments although the request allows %d (%s)" % (len(rsp_segments), ms, _short_cfg(c))))
            elif a["type"] == 4 and "request" in proposed and a["win"] > proposed["request"]:
                fails.append(("segack-window-exceeds-proposal:server", "server acks with window %d, the client proposed %d (%s)" % (a["win"], proposed["request"], _short_cfg(c))))
    # outcome
    outs = obs["outcomes"]
    if obs.get("plan"):
        # with an injected fault only the frame-level clauses (and the payload) are judged
        for o in outs:
            if o[1] == "ack" and o[3] != pattern(c["rsp_len"], 0x5A):
                fails.append(("wrong-payload", "%s" % _short_cfg(c)))
    elif obs["runaway"]:
        fails.append(("runaway-traffic", _short_cfg(c).__repr__()))
    elif len(outs) != 1:
        fails.append(("%d-outcomes" % len(outs), "%r (%s)" % ([o[:3] for o in outs], _short_cfg(c))))
    else:
        o = outs[0]
        if o[1] == "ack":
            if o[3] != pattern(c["rsp_len"], 0x5A):
                fails.append(("wrong-payload", "%s" % _short_cfg(c)))
        elif o[1] == "abort":
            if o[3] in (64, 65):
                fails.append(("silence-instead-of-abort:%s" % mode, "fault-free exchange ended in a local abort(reason %d): somebody went silent; swallowed %r (%s)" % (o[3], obs["swallowed"][:2], _short_cfg(c))))
            elif o[3] not in ABORT_OK:
                fails.append(("abort-with-other-reason:%d" % o[3], "%s" % _short_cfg(c)))
            elif fits_everything(c):
                fails.append(("spurious-abort:%d:%s" % (o[3], mode), "both sides support segmentation in both directions with room to spare, yet abort(%d) (%s)" % (o[3], _short_cfg(c))))
        else:
            fails.append(("outcome-%s" % o[1], "%s" % _short_cfg(c)))
    # dedupe by signature
    seen, out = set(), []
    for s, m in fails:
        if s not in seen:
            seen.add(s)
            out.append((s, m))
    return out


def _excess(n):
    return "by-header" if n <= 6 else "by-more"


def fits_everything(c):
    if c["c_seg"] != "segmentedBoth" or c["s_seg"] != "segmentedBoth":
        return False
    small = min(c["c_apdu"], c["s_apdu"]) - 6
    rq = -(-txn.service_data_len(c["req_len"]) // small)
    rp = -(-txn.service_data_len(c["rsp_len"]) // small)
    return rq <= min(c["s_segs"], 64) // 2 and rp <= min(c["c_segs"], 64) // 2


def binding(c):
    lim = min(c["c_apdu"], c["s_apdu"])
    for n in (c["req_len"], c["rsp_len"]):
        ln = txn.service_data_len(n)
        if ln > lim - 8:
            return True
    return False



# ---- histories of announcements: what an address said last is what counts ---------------------------------------------------------

_happ = None
SEGN = ("segmentedBoth", "segmentedTransmit", "segmentedReceive", "noSegmentation")


def hist_app():
    global _happ
    if _happ is None:
        from ..lab_stack import lib as lablib
        from .. import clock as VC
        L = lablib()
        A = L.apdu

        class PeerKeeper(L.app.Application):
            """requests and serves ConfirmedPrivateTransfer, and keeps what its peers announce (I-Am) in the DeviceInfoCache"""
            _startup_disabled = True

            def __init__(self, device):
                L.app.Application.__init__(self, device)
                self.outcomes = []

            def do_IAmRequest(self, apdu):
                self.deviceInfoCache.iam_device_info(apdu)

            def confirmation(self, apdu):
                kind = "abort" if isinstance(apdu, A.AbortPDU) else type(apdu).__name__
                self.outcomes.append((VC.clk.now, kind, getattr(apdu, "apduInvokeID", None), getattr(apdu, "apduAbortRejectReason", None)))

            def do_ConfirmedPrivateTransferRequest(self, apdu):
                resp = A.ConfirmedPrivateTransferACK(context=apdu)
                resp.vendorID = 999
                resp.serviceNumber = 1
                resp.resultBlock = L.Any(L.OctetString(pattern(30, 0x33)))
                self.response(resp)
        _happ = PeerKeeper
    return _happ


def run_announce_history(ops):
    """ops: ["iam", device, addr, max_apdu, seg] | ["send", addr, payload length] | ["peer-req", addr, sa, seg_first, maxresp code] | ["adv", dt]"""
    from ..lab_stack import StackLab, lib as lablib
    from .. import lab_device as LD
    from .. import clock as VC
    from .. import boot
    from ..ref import npci as RN
    L = lablib()
    lab = StackLab()
    boot.swallowed.take()
    iut = lab.add_stack(1, hist_app(), segmentation="segmentedBoth", max_apdu=1476, max_segs=64, retries=2, apdu_timeout=1000, seg_timeout=500, app_timeout=3000)
    att = lab.add_attacker(99)
    said = {}            # addr -> dict(device, max_apdu, can_receive)
    fails = []
    stats = dict(sends=0, judged=0, binding=0, moved=0, upgraded=0)
    inv_peer = [0]
    scanned = [0]
    known_at_send = {}

    def scan_retries():
        """every request APDU that left for an announced address since the last look - first transmissions and retries alike - respects what
        that address had announced by then"""
        for (t, src, dst, data) in att.seen[scanned[0]:]:
            if src is None or src.addrAddr != b"\x01" or dst is None or len(dst.addrAddr) != 1 or dst.addrAddr[0] not in said:
                continue
            try:
                nn = RN.decode(data)
                if nn["msg"] is not None:
                    continue
                a = RA.decode(nn["data"])
            except Exception:
                continue
            if a["type"] != 0 or known_at_send.get((dst.addrAddr[0], a["invoke"])) != said[dst.addrAddr[0]]["device"] or a.get("seg"):
                continue              # (a transaction that began before this device had announced itself from the address is not judged; a segmented
                                      #  transfer in progress cannot be re-sliced, its segment retransmissions keep their size)
            v = said[dst.addrAddr[0]]
            if len(nn["data"]) > v["max_apdu"] or (a.get("seg") and not v["can_receive"]):
                what = "exceeds-announced-max-apdu" if len(nn["data"]) > v["max_apdu"] else "segmented-toward-peer-that-cannot-receive-segments"
                fails.append(("hist:retransmission:%s" % what, "history %r: at t=%.1f a request APDU of %d octets (%s) left for address %d, which had last announced max-APDU %d, %s"
                              % (ops, t, len(nn["data"]), "segment" if a.get("seg") else "unsegmented", dst.addrAddr[0], v["max_apdu"], "can receive segments" if v["can_receive"] else "cannot receive segments")))
                break
        scanned[0] = len(att.seen)

    for op in ops:
        k = op[0]
        if not fails:
            scan_retries()
        if k == "iam":
            _, dev, addr, mx, seg = op
            # a device that announces from a new address is no longer at its old one
            for a_, v in list(said.items()):
                if v["device"] == dev and a_ != addr:
                    del said[a_]
                    stats["moved"] += 1
            said[addr] = dict(device=dev, max_apdu=mx, can_receive=seg in (0, 2))
            lab.inject(addr, 1, LD.iam_frame(dev, mx, seg))
            lab.settle()
        elif k == "peer-req":
            _, addr, sa, seg_first, maxresp = op
            inv_peer[0] = (inv_peer[0] + 1) % 200
            body = bytes.fromhex("0a03e71901")           # vendor 999, service 1, no parameters
            apdu = RA.encode(dict(type=RA.CONF, seg=bool(seg_first), mor=bool(seg_first), sa=bool(sa), maxsegs=0, maxresp=maxresp, invoke=inv_peer[0], service=18, data=body,
                                  seq=0, win=2))
            lab.inject(addr, 1, RN.encode(dict(msg=None, dadr=None, sadr=None, er=True, prio=0, hop=None, data=apdu)))
            lab.settle()
            if sa and addr in said and not said[addr]["can_receive"]:
                said[addr]["can_receive"] = True          # 'I accept a segmented response' says: I can receive segments
                stats["upgraded"] += 1
        elif k == "npdu":
            # the application knows the largest NPDU the path to that peer carries and notes it in the peer's record
            rec = iut.app.deviceInfoCache.get_device_info(L.Address(op[1]))
            if rec is not None:
                rec.maxNpduLength = op[2]
                iut.app.deviceInfoCache.update_device_info(rec)
                if op[1] in said:
                    said[op[1]]["npdu"] = op[2]
        elif k == "adv":
            lab.run(lab.now + float(op[1]))
            VC.clk.now = max(VC.clk.now, lab.now)
        elif k == "send":
            _, addr, n = op
            stats["sends"] += 1
            req = L.apdu.ConfirmedPrivateTransferRequest(vendorID=999, serviceNumber=1)
            req.serviceParameters = L.Any(L.OctetString(pattern(n, 0x21)))
            req.pduDestination = L.Address(addr)
            mark = len(att.seen)
            scanned[0] = mark          # (frames of this request's first transmission are judged right here)
            n_out = len(iut.app.outcomes)
            try:
                iut.app.request(req)
            except Exception as err:
                fails.append(("hist:submit-raised:%s" % type(err).__name__, "send %r raised %r" % (op, err)))
                break
            lab.settle()
            inv = req.apduInvokeID
            known_at_send[(addr, inv)] = said[addr]["device"] if addr in said else None
            sent = []
            for (t, src, dst, data) in att.seen[mark:]:
                if src is None or src.addrAddr != b"\x01" or dst is None or dst.addrAddr != bytes([addr]):
                    continue
                try:
                    nn = RN.decode(data)
                    if nn["msg"] is not None:
                        continue
                    a = RA.decode(nn["data"])
                except Exception:
                    continue
                if a["type"] == 0 and a["invoke"] == inv:
                    sent.append((len(nn["data"]), bool(a.get("seg"))))
            if addr not in said:
                continue
            stats["judged"] += 1
            v = said[addr]
            desc = "history %r: address %d last announced device %d, max-APDU %d, %s" % (ops, addr, v["device"], v["max_apdu"], "can receive segments" if v["can_receive"] else "cannot receive segments")
            total = txn.service_data_len(n) + 4
            if total > v["max_apdu"]:
                stats["binding"] += 1
            for ln, seg in sent:
                if ln > v["max_apdu"]:
                    fails.append(("hist:request-exceeds-announced-max-apdu:%s" % ("segmented" if seg else "unsegmented"), "%s; an APDU of %d octets was sent to it" % (desc, ln)))
                    break
                if seg and not v["can_receive"]:
                    fails.append(("hist:segmented-toward-peer-that-cannot-receive-segments", "%s; a segment of %d octets was sent to it" % (desc, ln)))
                    break
            if not sent:
                ab = [o for o in iut.app.outcomes[n_out:] if o[1] == "abort" and o[2] == inv]
                if not ab:
                    fails.append(("hist:nothing-sent-and-no-abort", "%s; a request of %d octets produced neither a frame nor an abort" % (desc, total)))
                elif total <= v["max_apdu"] and not any(o_[0] == "npdu" for o_ in ops):      # (an NPDU limit noted by the application travels with the record)
                    fails.append(("hist:aborted-although-it-fits", "%s; a request of %d octets was aborted locally (reason %r)" % (desc, total, ab[0][3])))
            elif total > v["max_apdu"] and not v["can_receive"]:
                pass     # (already reported above as too long or as segmented)
        if fails:
            break
    if not fails:
        lab.run(lab.now + 4.0)
        scan_retries()
    sw = [r for r in boot.swallowed.take() if r[0]]
    if fails and sw:
        fails = [(fails[0][0] + ":%s@%s" % (sw[0][0], sw[0][1]), fails[0][1] + " swallowed %r" % (sw[:2],))] + fails[1:]
    return fails[:2], stats



# ---- a requester that changes the window from ack to ack -------------------------------------------------------------------------

def run_window_dialog(wins, nseg, s_win):
    """a hand-driven requester takes a segmented answer of about nseg segments (50-octet APDUs) and offers the windows `wins` in turn
    in its segment-acks; after an ack offering w the responder may send at most w segments before the next ack"""
    from ..lab_stack import StackLab, lib as lablib
    from .. import clock as VC
    from .. import boot
    from ..ref import npci as RN
    L = lablib()
    ClientApp, IOClientApp, ServerApp = txn.apps()
    lab = StackLab()
    boot.swallowed.take()
    srv = lab.add_stack(2, ServerApp, segmentation="segmentedBoth", max_apdu=1024, max_segs=64, window=s_win, retries=1, apdu_timeout=3000, seg_timeout=1500, app_timeout=3000)
    srv.app.rsp = "ack"
    srv.app.rsp_len = txn.payload_for_total(nseg * 44 - 3)
    att = lab.add_attacker(99)
    inv = 7
    body = bytes.fromhex("0a03e71901")
    apdu = RA.encode(dict(type=RA.CONF, seg=False, mor=False, sa=True, maxsegs=0, maxresp=0, invoke=inv, service=18, data=body))
    lab.inject(99, 2, RN.encode(dict(msg=None, dadr=None, sadr=None, er=True, prio=0, hop=None, data=apdu)))
    lab.settle()
    fails = []
    pos = 0
    acked = -1
    offered = None          # window offered in our last ack
    bursts = []
    done = False
    for rnd in range(len(wins) + 2 * nseg + 5):
        segs = []
        for (t, src, dst, data) in att.seen[pos:]:
            if src is None or src.addrAddr != b"\x02":
                continue
            try:
                a = RA.decode(RN.decode(data)["data"])
            except Exception:
                continue
            if a["type"] == 3 and a.get("seg") and a["invoke"] == inv:
                segs.append(a)
            elif a["type"] == 7 and a.get("invoke") == inv:
                return fails, dict(bursts=bursts, done=False, aborted=a.get("reason"))
        pos = len(att.seen)
        if not segs:
            break
        bursts.append((offered, len(segs)))
        if offered is not None and len(segs) > offered:
            fails.append(("window:burst-exceeds-last-offer", "after a segment-ack offering window %d the responder sent %d segments (sequence numbers %r); offers so far %r, responder's own window %d"
                          % (offered, len(segs), [a_["seq"] for a_ in segs], wins[:rnd + 1], s_win)))
            break
        if segs[0]["seq"] == 0 and offered is None and len(segs) != 1:
            fails.append(("window:first-burst", "%d segments before the first segment-ack" % len(segs)))
            break
        w = wins[min(rnd, len(wins) - 1)]
        highest = acked
        for a_ in segs:
            if a_["seq"] == (highest + 1) % 256:
                highest += 1
        # acknowledge no more of this burst than the window we are about to offer holds
        ack_to = min(highest, acked + max(1, w)) if offered is not None else highest
        if any((not a_["mor"]) and a_["seq"] == ack_to % 256 for a_ in segs):
            done = True
        acked = ack_to
        offered = w
        ack = RA.encode(dict(type=RA.SEGACK, nak=False, srv=False, invoke=inv, seq=acked % 256, win=w))
        lab.inject(99, 2, RN.encode(dict(msg=None, dadr=None, sadr=None, er=False, prio=0, hop=None, data=ack)))
        lab.settle()
        if done:
            break
    return fails, dict(bursts=bursts, done=done, aborted=None)


def judge(case):
    if case.get("k") == "window":
        try:
            with watchdog(60):
                fails, st_ = run_window_dialog(case["wins"], case["nseg"], case["s_win"])
        except Stall:
            return Verdict([("stall", "no return within 60 s")], True, ("stall",))
        varied = len(set(case["wins"])) > 1
        return Verdict(fails, varied and len(st_["bursts"]) > 2, ["window-dialog"] + (["window-dialog:completed"] if st_["done"] else []))
    if case.get("k") == "announce":
        try:
            with watchdog(60):
                fails, stats = run_announce_history(case["ops"])
        except Stall:
            return Verdict([("stall", "no return within 60 s")], True, ("stall",))
        labels = ["announce"] + [x for x in ("moved", "upgraded", "binding") if stats[x]]
        return Verdict(fails, stats["binding"] > 0, labels)
    try:
        with watchdog(60):
            plan = dict((int(k), tuple(v)) for k, v in (case.get("plan") or {}).items())
            obs = txn.run_txn(dict(case["cfg"]), plan)
            obs["plan"] = plan
    except Stall:
        return Verdict([("stall", "the lab did not come back within 60 s of real time: %r" % (case,))], True, ("stall",))
    fails = check(obs)
    c = obs["cfg"]
    labels = ["iam" if c["know"] else "blind", "outcome:" + (obs["outcomes"][0][1] if obs["outcomes"] else "none")]
    return Verdict(fails, binding(c), labels)


# ---- generation ----------------------------------------------------------------------------------------------------------------

def lengths_for(limit, maxsegs):
    """payload lengths around the boundaries implied by a max-APDU `limit` and a segment budget"""
    totals = set([5])
    for hdr in (3, 4, 5, 6, 0):
        for k in (1, 2):
            for d in (-1, 0, 1):
                totals.add(k * (limit - hdr) + d)
    for hdr in (0, 5, 6):
        for d in (-1, 0, 1):
            totals.add(maxsegs * (limit - hdr) + d)
    out = set()
    for t in totals:
        if 0 < t <= 70000:
            n = txn.payload_for_total(t)
            if n is not None:
                out.add(n)
    return sorted(out)


def cfg_space(tier):
    """deterministic core: max-APDU pairs x segmentation pairs x client max-segments, every other dimension rotated independently"""
    segs_vals = (2, 4, 8, 16, 32, 64, 100)
    wins = (1, 2, 8, 127)
    out = []
    i = 0
    for ca, sa in itertools.product(SIZES, SIZES):
        if tier == "quick" and not (ca == sa or (ca, sa) in ((50, 1476), (1476, 50), (128, 480), (1024, 206))):
            continue
        for cs, ss in itertools.product(SEGS, SEGS):
            for ms in (segs_vals if tier == "thorough" else (2, 4, 100)):
                i += 1
                out.append(dict(c_apdu=ca, s_apdu=sa, c_seg=cs, s_seg=ss, c_segs=ms, s_segs=segs_vals[(i * 3) % 7], c_win=wins[i % 4], s_win=wins[(i // 4) % 4]))
    return out


def plan(tier, seed):
    space = cfg_space(tier)
    nsh = 32
    specs = [dict(name="caps-%d" % i, kind="caps", idx=list(range(i, len(space), nsh)), tier=tier) for i in range(nsh)]
    specs.append(dict(name="windows", kind="windows"))
    for i in range(8):
        specs.append(dict(name="random-%d" % i, kind="random", n=2500 if tier == "quick" else 40000))
    for i in range(6):
        specs.append(dict(name="announcements-%d" % i, kind="announce", n=1500 if tier == "quick" else 40000))
    specs.append(dict(name="varying-window", kind="vwindow", n=400 if tier == "quick" else 6000))
    # once more with the library's debug tracing switched on
    specs.append(dict(name="tracing-random", kind="random", n=400 if tier == "quick" else 6000, tracing=True))
    specs.append(dict(name="tracing-announcements", kind="announce", n=250 if tier == "quick" else 6000, tracing=True))
    return specs


def run(spec, ctx):
    if spec["kind"] == "vwindow":
        from hypothesis import strategies as st
        for w1 in (1, 2, 3, 4, 8):
            for w2 in (1, 2, 3, 4, 8):
                for s_win in (2, 4, 16):
                    ctx.check(dict(k="window", wins=[w1, w1, w2, w2, w1, w2], nseg=20, s_win=s_win))
        strat = st.tuples(st.lists(st.sampled_from([1, 1, 2, 3, 4, 5, 8, 16, 127]), min_size=2, max_size=12), st.sampled_from([6, 14, 30]), st.sampled_from([1, 2, 4, 8, 127])).map(
            lambda t: dict(k="window", wins=t[0], nseg=t[1], s_win=t[2]))
        ctx.for_all(strat, spec["n"])
        return
    if spec["kind"] == "announce":
        from hypothesis import strategies as st
        addr = st.sampled_from([11, 12, 13])
        iam = st.tuples(st.just("iam"), st.sampled_from([5, 7, 9]), addr, st.sampled_from([50, 128, 206, 480, 1024, 1476]), st.integers(0, 3)).map(list)
        send = st.tuples(st.just("send"), addr, st.sampled_from([0, 5, 38, 39, 40, 41, 100, 116, 117, 118, 119, 194, 195, 196, 197, 300, 468, 469, 470, 471, 600, 1012, 1013, 1014, 1015,
                                                               1400, 1464, 1465, 1466, 1467, 1500, 3000])).map(list)
        preq = st.tuples(st.just("peer-req"), addr, st.booleans(), st.booleans(), st.sampled_from([0, 1, 3, 5])).map(list)
        adv = st.tuples(st.just("adv"), st.sampled_from([0.0, 0.5, 1.1, 1.5, 5.0])).map(list)
        npdu = st.tuples(st.just("npdu"), addr, st.sampled_from([60, 200, 501, 1497, 1497, 1497])).map(list)
        ctx.for_all(st.lists(st.one_of(iam, iam, iam, send, send, send, preq, adv, adv, npdu), min_size=2, max_size=14).map(lambda o: dict(k="announce", ops=o)), spec["n"])
        return
    if spec["kind"] == "caps":
        space = cfg_space(spec["tier"])
        for ci in spec["idx"]:
            base = space[ci]
            # responses are bounded by the client's announced limits, requests by the server's
            rsp_lens = lengths_for(base["c_apdu"], min(base["c_segs"], 64))
            req_lens = lengths_for(base["s_apdu"], min(base["s_segs"], 64))
            if spec["tier"] == "quick":
                rsp_lens = rsp_lens[::2] + rsp_lens[-2:]
                req_lens = req_lens[::2] + req_lens[-2:]
            for know in (False, True):
                for n in rsp_lens:
                    if txn.service_data_len(n) > 40 * 1476:
                        continue
                    ctx.check(dict(k="cap", cfg=dict(base, req_len=5, rsp_len=n, know=know, retries=0)))
                for n in req_lens:
                    if txn.service_data_len(n) > 40 * 1476:
                        continue
                    ctx.check(dict(k="cap", cfg=dict(base, req_len=n, rsp_len=5, know=know, retries=0)))
    elif spec["kind"] == "windows":
        n = txn.payload_for_total(50 * 20)
        for cw in (1, 2, 3, 8, 64, 126, 127):
            for sw in (1, 2, 3, 8, 64, 126, 127):
                for know in (False, True):
                    ctx.check(dict(k="cap", cfg=dict(c_apdu=50, s_apdu=50, c_segs=100, s_segs=100, c_win=cw, s_win=sw, req_len=n, rsp_len=n, know=know, retries=0)))
        ctx.mark_exhaustive("window pairs over {1,2,3,8,64,126,127}^2")
        # transfers that wrap the sequence number, with a receiver that grants less than the sender proposes
        nbig = txn.payload_for_total(44 * 263 - 3)
        for cw, sw in ((8, 3), (3, 8), (127, 2)):
            ctx.check(dict(k="cap", cfg=dict(c_apdu=50, s_apdu=50, c_segs=100, s_segs=100, c_win=cw, s_win=sw, req_len=nbig, rsp_len=5, know=False, retries=0)))
            ctx.check(dict(k="cap", cfg=dict(c_apdu=50, s_apdu=50, c_segs=100, s_segs=100, c_win=cw, s_win=sw, req_len=5, rsp_len=nbig, know=False, retries=0)))
        # the negative-ack and retransmission paths also carry window fields: every single drop / duplicate on a 6-segment exchange
        n6 = txn.payload_for_total(44 * 6 - 3)
        for cw in (1, 2, 8, 127):
            for sw in (1, 2, 8, 127):
                cfg = dict(c_apdu=50, s_apdu=50, c_segs=100, s_segs=100, c_win=cw, s_win=sw, req_len=n6, rsp_len=n6, know=False, retries=1)
                nframes = len(txn.run_txn(cfg)["frames"])
                for i in range(nframes):
                    for act in (["drop"], ["dup"]):
                        ctx.check(dict(k="cap", cfg=cfg, plan={str(i): act}))
        ctx.mark_exhaustive("every single drop/duplicate on a 6-segment exchange for 16 window pairs")
    elif spec["kind"] == "random":
        # every dimension drawn independently: no accidental correlation between capabilities
        from hypothesis import strategies as st
        segs_vals = (2, 4, 8, 16, 32, 64, 100)

        def build(t):
            ca, sa, cs, ss, cms, sms, cw, sw, know, direction, pick = t
            base = dict(c_apdu=ca, s_apdu=sa, c_seg=cs, s_seg=ss, c_segs=cms, s_segs=sms, c_win=cw, s_win=sw, know=know, retries=0)
            if direction:
                lens = [n for n in lengths_for(ca, min(cms, 64)) if txn.service_data_len(n) <= 20 * 1476]
                return dict(k="cap", cfg=dict(base, req_len=5, rsp_len=lens[pick % len(lens)]))
            lens = [n for n in lengths_for(sa, min(sms, 64)) if txn.service_data_len(n) <= 20 * 1476]
            return dict(k="cap", cfg=dict(base, req_len=lens[pick % len(lens)], rsp_len=5))
        strat = st.tuples(st.sampled_from(SIZES), st.sampled_from(SIZES), st.sampled_from(SEGS), st.sampled_from(SEGS),
                          st.sampled_from(segs_vals), st.sampled_from(segs_vals), st.one_of(st.sampled_from([1, 2, 8, 127]), st.integers(1, 127)),
                          st.one_of(st.sampled_from([1, 2, 8, 127]), st.integers(1, 127)), st.booleans(), st.booleans(), st.integers(0, 60)).map(build)
        ctx.for_all(strat, spec["n"])
