"""C04 -- a confirmed request ends in exactly one outcome, in bounded time, no residue."""
from ..runner import Verdict, watchdog, Stall
from .. import txn
from .c05 import role_of, base_cfg, baseline_for, _short_cfg

ID = "C04"
LEVEL = "fault_enumeration"
RULE = ("Real client and server application stacks (request submitted directly through Application.request and through an IOCB on "
        "ApplicationIOController) on a fault-injecting virtual LAN under virtual time. For each configuration (segmentation "
        "support 4 x 4, max-APDU sizes, windows 1..8, retries 0..3, request/response lengths on both sides of the segmentation "
        "boundaries, server answering with ack / error / reject / late / not at all) the fault-free run is taken and then EVERY "
        "single fault (drop, duplicate, delay by 0.1 s, Tseg/2, Tseg, Tout, 2*Tout) at EVERY frame index, EVERY pair of faults on "
        "selected configurations, and total silence from frame k on for EVERY k and each direction are enumerated; Hypothesis "
        "adds random fault streams. Oracle at quiescence: exactly one confirmation / IOCB callback reached the requester, it is "
        "an ack, error, reject or abort carrying the request's invoke ID (IOCB: COMPLETED with a response or ABORTED with an "
        "error, consistently); it arrived, and the lab was quiescent, before the analytic horizon T_max; the requesting stack "
        "holds no client transaction, no timer, no queue entry and emitted no frame after the outcome; the serving stack holds "
        "no transaction or timer. Non-trivial: >= 1 fault hit a frame of the transaction and (segmentation in some direction or "
        ">= 1 retransmission observed). Distinct by (configuration, plan)."
        " Also: an unsegmented request is transmitted at most retries+1 times and decided by (retries+1) x APDU timeout; every single drop/delay followed by every later silence point on segmented configurations."
        " The peer's I-Am recorded while the transaction is under way (know_at)."
        " One reduced copy of a generated shard runs with the library's debug tracing switched on (label tracing-on).")
ASSUMPTIONS = [
    "T_max = (retries+1) * (Tout + (segments+4) * (retries+1) * 4 * Tseg) + Tapp + think + injected delays + 30 s (deliberately generous)",
    "an abort is a legal outcome here; whether a single fault must be survived is C05",
    "exceptions swallowed by the event loop are diagnostics that name the root cause, not violations by themselves",
]


def check(obs):
    c = obs["cfg"]
    fails = []
    outs = obs["outcomes"]
    plan = obs.get("plan") or {}
    first = None
    if plan:
        i0 = min(plan)
        fr = [f for f in obs["frames"] if f["i"] == i0]
        first = "%s:%s" % (plan[i0][0], role_of(fr[0].get("apci"), c) if fr else "beyond-the-run")
    elif obs.get("silence"):
        first = "silence:%s" % {None: "both", 1: "from-client", 2: "from-server"}[obs["silence"][1]]
    tag = first or "no-fault"
    exc = ""
    if obs["swallowed"]:
        exc = ":%s@%s" % (obs["swallowed"][0][0], obs["swallowed"][0][1])
    desc = "cfg %r plan %r silence %r -> outcomes %r, client states %r, server states %r, swallowed %r" % (
        _short_cfg(c), plan, obs.get("silence"), [o[:3] + ((o[3],) if o[1] != "ack" else ()) for o in outs], obs["states"]["client"], obs["states"]["server"], obs["swallowed"][:2])
    if obs["runaway"]:
        return [("runaway-traffic:%s" % tag, "more than 20000 frames: the transaction never ends; " + desc)]
    if obs["submit_error"]:
        return [("submit-raised:%s" % obs["submit_error"].split(":")[0], desc)]
    if not obs["quiescent"]:
        fails.append(("not-quiescent-by-horizon:%s%s" % (tag, exc), "tasks still pending at T_max=%.1f s; " % obs["horizon"] + desc))
    nreq = c.get("nreq", 1)
    if nreq > 1:
        # several requests to the same peer (direct: concurrent transactions; IOCB: queued one behind the other)
        from collections import Counter
        per = Counter(o[2] for o in outs)
        want = obs["invokes"]
        if c.get("iocb"):
            done = [x for x in obs.get("iocbs", []) if x["state"] in (3, 4)]
            if len(outs) != nreq or len(done) != nreq:
                fails.append(("multi:%d-of-%d-iocbs-answered:%s%s" % (min(len(outs), len(done)), nreq, tag, exc), desc + " iocbs %r" % (obs.get("iocbs"),)))
        else:
            for inv in want:
                if per.get(inv, 0) != 1:
                    fails.append(("multi:request-got-%d-outcomes:%s%s" % (min(per.get(inv, 0), 2), tag, exc), "invoke ID %r; " % inv + desc))
                    break
            if len(set(want)) != len(want):
                fails.append(("multi:duplicate-invoke-ids", "%r; " % (want,) + desc))
    elif len(outs) == 0:
        fails.append(("no-outcome:%s%s" % (tag, exc), desc))
    elif len(outs) > 1:
        fails.append(("%d-outcomes:%s%s" % (min(len(outs), 3), tag, exc), desc))
    else:
        o = outs[0]
        if o[1] not in ("ack", "simpleack", "error", "reject", "abort"):
            fails.append(("strange-outcome:%s:%s" % (o[1], tag), desc))
        if o[2] != obs["invoke"]:
            fails.append(("wrong-invoke-id:%s:%s%s" % (o[1], tag, exc), "request had invoke ID %r, outcome carries %r; " % (obs["invoke"], o[2]) + desc))
        if o[0] > obs["horizon"]:
            fails.append(("late-outcome:%s" % tag, desc))
        rs_, ps_ = txn.seg_counts(c)
        if rs_ == 1 and ps_ == 1 and not c.get("iocb_queue_wait"):
            # an unsegmented exchange is decided by the requester's own timer: at the latest (retries + 1) x APDU timeout after submission
            bound = (c["retries"] + 1) * c["apdu_timeout"] / 1000.0
            if o[0] > bound + 1e-6:
                fails.append(("outcome-after-retry-budget:%s" % tag, "outcome at %.3f s, the configured timeouts and retry count allow %.3f s; " % (o[0], bound) + desc))
        if "iocb" in obs:
            io = obs["iocb"]
            ok = (io["state"] == 3 and io["has_response"] and not io["has_error"] and o[1] in ("ack", "simpleack")) or \
                 (io["state"] == 4 and io["has_error"] and not io["has_response"] and o[1] in ("error", "reject", "abort"))
            if not ok:
                fails.append(("iocb-inconsistent:%s:%s" % (o[1], tag), "IOCB %r; " % (io,) + desc))
    # retry discipline: an unsegmented request is put on the wire at most retries + 1 times
    if txn.seg_counts(c)[0] == 1:
        from collections import Counter
        sent = Counter(f["apci"]["invoke"] for f in obs["frames"] if f.get("apci") and f["apci"]["type"] == 0 and f["src"] == 1 and not f["apci"].get("seg"))
        for inv, n_ in sorted(sent.items()):
            if n_ > c["retries"] + 1:
                fails.append(("request-sent-%s-times-with-%d-retries:%s" % ("more" if n_ > c["retries"] + 2 else "once-too-often", c["retries"], tag),
                              "the request with invoke ID %r was transmitted %d times, configured retries %d; " % (inv, n_, c["retries"]) + desc))
                break
    r = obs["residue"]
    if outs and obs["quiescent"]:
        if r["client_tr"] or r["client_timers"]:
            fails.append(("client-residue:%s%s" % (tag, exc), "client transactions %d, timers %d after the outcome; " % (r["client_tr"], r["client_timers"]) + desc))
        if r["queue_by_address"]:
            fails.append(("queue-residue:%s" % tag, "queue_by_address still holds %d entries; " % r["queue_by_address"] + desc))
    for snap in (r["at_outcome"][:1] if nreq == 1 else r["at_outcome"][-1:] if len(outs) == nreq else []):
        if snap["tr"] or snap["timers"] or snap["queue"]:
            fails.append(("held-after-outcome:%s%s" % (tag, exc), "right after the outcome the requester still holds %d transaction(s), %d timer(s), %d queue entr(ies); "
                          % (snap["tr"], snap["timers"], snap["queue"]) + desc))
    if r["late_client_frames"]:
        fails.append(("post-outcome-frame:%s%s" % (tag, exc), "the requester emitted %d frame(s) after the outcome was delivered (%s); " % (len(r["late_client_frames"]), r["late_client_frames"][0][:24]) + desc))
    if obs["quiescent"] and (r["server_tr"] or r["server_timers"]):
        fails.append(("server-residue:%s%s" % (tag, exc), "server transactions %d, timers %d at quiescence; " % (r["server_tr"], r["server_timers"]) + desc))
    return fails


def judge(case):
    try:
        with watchdog(60):
            return _judge(case)
    except Stall:
        return Verdict([("stall", "the lab did not come back within 60 s of real time: %r" % (case,))], True, ("stall",))


_base_symptoms = {}


def baseline_symptoms(cfg):
    key = tuple(sorted(cfg.items()))
    if key not in _base_symptoms:
        if len(_base_symptoms) > 3000:
            _base_symptoms.clear()
        o = txn.run_txn(cfg)
        o["plan"], o["silence"] = {}, None
        _base_symptoms[key] = set(s.split(":")[0] for s, _ in check(o))
    return _base_symptoms[key]


def _judge(case):
    cfg = dict(case["cfg"])
    plan = dict((int(k), tuple(v)) for k, v in (case.get("plan") or {}).items())
    sil = case.get("silence")
    obs = txn.run_txn(cfg, plan, sil)
    obs["plan"] = plan
    obs["silence"] = tuple(sil) if sil else None
    fails = check(obs)
    if fails and (plan or sil):
        # a symptom the fault-free run of the same configuration already shows is reported once, under that run
        base = baseline_symptoms(cfg)
        fails = [(s, m) for s, m in fails if s.split(":")[0] not in base]
    rs, ps = txn.seg_counts(obs["cfg"])
    reqs = sum(1 for f in obs["frames"] if f.get("apci") and f["apci"]["type"] == 0 and f["src"] == 1 and (not f["apci"].get("seg") or f["apci"]["seq"] == 0))
    hit = any(i < len(obs["frames"]) for i in plan) or bool(sil)
    nt = hit and (rs > 1 or ps > 1 or reqs > 1)
    labels = ["outcome:" + (obs["outcomes"][0][1] if obs["outcomes"] else "none"), "iocb" if cfg.get("iocb") else "direct",
              "rsp:" + obs["cfg"]["rsp"]]
    if reqs > 1:
        labels.append("retransmission")
    if sil:
        labels.append("silence")
    return Verdict(fails, nt, labels)


# ---- generation ----------------------------------------------------------------------------------------------------------

SEGS = ("segmentedBoth", "segmentedTransmit", "segmentedReceive", "noSegmentation")


def delays(c):
    tseg = c.get("seg_timeout", 1500) / 1000.0
    tout = c.get("apdu_timeout", 3000) / 1000.0
    return [0.1, tseg / 2, tseg, tout, 2 * tout]


def configs(tier):
    """the configurations whose fault-free runs are then attacked at every frame"""
    S = 50
    n2 = txn.payload_for_total(2 * S - 3)
    n3 = txn.payload_for_total(3 * S - 5)
    out = []
    # unsegmented, all answer kinds, retries 0..3, both submission paths
    for rsp in ("ack", "error", "exec-error", "reject", "abort", "silent"):
        for retries in (0, 1, 3) if tier == "quick" else (0, 1, 2, 3):
            for iocb in (False, True):
                out.append(base_cfg(S, req_len=5, rsp_len=5, rsp=rsp, retries=retries, iocb=iocb))
    # several requests to one peer at once: queued IOCBs, concurrent direct transactions
    for nreq in (2, 3):
        for iocb in (False, True):
            for rsp in ("ack", "error", "reject", "silent"):
                out.append(base_cfg(S, req_len=5, rsp_len=5, rsp=rsp, retries=1, iocb=iocb, nreq=nreq))
            out.append(base_cfg(S, req_len=n2, rsp_len=n2, retries=1, iocb=iocb, nreq=nreq))
    # slow servers: answer before / after the application timeout and after the client's timeout
    for think in (1.0, 2.9, 3.5, 7.0):
        for iocb in (False, True):
            out.append(base_cfg(S, req_len=5, rsp_len=5, think=think, retries=1, iocb=iocb))
    # segmented one way, the other, both; windows; retries
    for (rq, rp) in ((n3, 5), (5, n3), (n2, n2)):
        for (cw, sw) in ((2, 2), (1, 1), (3, 8)) if tier == "quick" else ((2, 2), (1, 1), (3, 8), (8, 3), (4, 4)):
            for retries in (1, 3) if tier == "quick" else (0, 1, 2, 3):
                for iocb in (False, True):
                    out.append(base_cfg(S, req_len=rq, rsp_len=rp, c_win=cw, s_win=sw, retries=retries, iocb=iocb))
    # the peer's I-Am is recorded while the transaction is under way: before the first retry, between retries, after the outcome
    for rsp in ("ack", "silent", "error"):
        for iocb in (False, True):
            for know_at in (0.5, 3.5, 7.0):
                out.append(base_cfg(S, req_len=5, rsp_len=5, rsp=rsp, retries=2, iocb=iocb, know_at=know_at))
            out.append(base_cfg(S, req_len=n2, rsp_len=n2, rsp=rsp, retries=1, iocb=iocb, know_at=0.7))
    # error / reject after a segmented request
    for rsp in ("error", "reject", "abort", "silent"):
        out.append(base_cfg(S, req_len=n3, rsp_len=5, rsp=rsp, retries=1))
    # segmentation support mismatches (local aborts and peer aborts)
    for cs in SEGS:
        for ss in SEGS:
            for (rq, rp) in ((n2, 5), (5, n2)):
                out.append(base_cfg(S, req_len=rq, rsp_len=rp, c_seg=cs, s_seg=ss, retries=1))
    return out


def plan(tier, seed):
    cfgs = configs(tier)
    specs = []
    nsh = 24
    for i in range(nsh):
        specs.append(dict(name="single-%d" % i, kind="single", idx=list(range(i, len(cfgs), nsh)), tier=tier))
    specs.append(dict(name="pairs-0", kind="pairs", which=0, tier=tier))
    specs.append(dict(name="pairs-1", kind="pairs", which=1, tier=tier))
    specs.append(dict(name="pairs-2", kind="pairs", which=2, tier=tier))
    for i in range(4):
        specs.append(dict(name="streams-%d" % i, kind="streams", n=1000 if tier == "quick" else 40000))
    for i in range(6):
        specs.append(dict(name="fault+silence-%d" % i, kind="fault+silence", part=i, tier=tier))
    # once more with the library's debug tracing switched on
    specs.append(dict(name="tracing-streams", kind="streams", n=150 if tier == "quick" else 4000, tracing=True))
    return specs


def run(spec, ctx):
    kind = spec["kind"]
    if kind == "single":
        cfgs = configs(spec["tier"])
        for ci in spec["idx"]:
            cfg = cfgs[ci]
            ctx.check(dict(k="txn", cfg=cfg))
            base, nframes = baseline_for(cfg)
            acts = [("drop",), ("dup",)] + [("delay", d) for d in delays(cfg)]
            for i in range(nframes):
                for act in acts:
                    ctx.check(dict(k="txn", cfg=cfg, plan={str(i): list(act)}))
            for k in range(nframes + 1):
                for src in (None, 1, 2):
                    ctx.check(dict(k="txn", cfg=cfg, silence=[k, src]))
        ctx.mark_exhaustive("every single fault and every silence-from-k on %d configurations" % len(spec["idx"]))
    elif kind == "pairs":
        S = 50
        n2 = txn.payload_for_total(2 * S - 3)
        cfg = [base_cfg(S, req_len=5, rsp_len=5, retries=1), base_cfg(S, req_len=n2, rsp_len=5, retries=1, iocb=True),
               base_cfg(S, req_len=5, rsp_len=n2, retries=1)][spec["which"]]
        base, nframes = baseline_for(cfg)
        acts = [("drop",), ("dup",), ("delay", 0.75), ("delay", 3.0)]
        span = nframes + 4
        for i in range(span):
            for j in range(i + 1, span + 3):
                for a1 in acts:
                    for a2 in acts:
                        ctx.check(dict(k="txn", cfg=cfg, plan={str(i): list(a1), str(j): list(a2)}))
        ctx.mark_exhaustive("every pair of faults on configuration %d" % spec["which"])
    elif kind == "fault+silence":
        # one lost or late frame, then total silence from some later frame on: segmented transfers in either or both directions
        S = 50
        n2 = txn.payload_for_total(2 * S - 3)
        n3 = txn.payload_for_total(3 * S - 5)
        cfgs = []
        for (rq, rp) in ((n2, n2), (n3, 5), (5, n3), (n3, n3)):
            for (cw, sw) in ((2, 2), (1, 1), (3, 8)):
                for retries in (0, 1) if spec["tier"] == "quick" else (0, 1, 3):
                    cfgs.append(base_cfg(S, req_len=rq, rsp_len=rp, c_win=cw, s_win=sw, retries=retries))
        for cfg in cfgs[spec["part"]::6]:
            base, nframes = baseline_for(cfg)
            for i in range(nframes):
                for act in (("drop",), ("delay", 0.75)):
                    for k in range(i + 1, nframes + 3):
                        for src in (None, 1, 2):
                            ctx.check(dict(k="txn", cfg=cfg, plan={str(i): list(act)}, silence=[k, src]))
        ctx.mark_exhaustive("every single drop / delay followed by every later silence point on the segmented configurations (part %d)" % spec["part"])
    elif kind == "streams":
        from hypothesis import strategies as st
        act = st.one_of(st.just(["drop"]), st.just(["dup"]), st.tuples(st.just("delay"), st.sampled_from([0.1, 0.75, 1.5, 3.0, 6.0])).map(list))
        plan_s = st.dictionaries(st.integers(0, 30).map(str), act, max_size=8)
        S = 50
        cfg = st.tuples(st.integers(0, 3), st.integers(0, 3), st.integers(1, 8), st.integers(1, 8), st.integers(0, 3), st.booleans(),
                        st.sampled_from(["ack", "ack", "ack", "error", "exec-error", "reject", "abort", "silent"]), st.sampled_from(SEGS), st.sampled_from(SEGS),
                        st.sampled_from([0.0, 0.0, 1.0, 3.5])).map(
            lambda t: base_cfg(S, req_len=max(0, (txn.payload_for_total(max(10, t[0] * S - 2)) or 0)), rsp_len=max(0, (txn.payload_for_total(max(10, t[1] * S - 2)) or 0)),
                               c_win=t[2], s_win=t[3], retries=t[4], iocb=t[5], rsp=t[6], c_seg=t[7], s_seg=t[8], think=t[9], nreq=1 + (t[2] + t[3]) % 3))
        sil = st.one_of(st.none(), st.none(), st.tuples(st.integers(0, 12), st.sampled_from([None, 1, 2])).map(list))
        strat = st.tuples(cfg, plan_s, sil).map(lambda t: dict(k="txn", cfg=t[0], plan=t[1], silence=t[2]))
        ctx.for_all(strat, spec["n"])
