"""C16 -- COV subscribers are told of every qualifying change, and only while subscribed."""
from ..runner import Verdict, watchdog, Stall
from .. import clock as VC
from .. import boot
from ..lab_stack import StackLab, lib as lablib
from .. import lab_device as LD

ID = "C16"
LEVEL = "exploration"
RULE = ("A real device with ChangeOfValueServices holding analog-value (COV increment 10), binary-value, multi-state-value and "
        "pulse-converter objects, and 1..3 real subscriber stacks that acknowledge confirmed notifications, on the virtual LAN under "
        "virtual time. Hypothesis timelines (shrinkable operation lists) of: subscribe (confirmed or not, lifetime 0..120 s, 0 = "
        "indefinite; two process identifiers per subscriber), re-subscribe with other parameters, cancel, write present value "
        "(steps below / at / above the increment, returns to the old value, bursts of several writes in one instant), write status "
        "flags, advance time across expiry instants, read activeCovSubscriptions. Oracle = COV model evaluated after every step "
        "(pump to quiescence at the current instant): subscribe / cancel are acked; a new or renewed subscription gets exactly one "
        "initial notification; a qualifying change gives exactly one notification per live subscription (1..k for a burst of k "
        "qualifying changes in one instant), confirmed / unconfirmed as LAST requested, carrying the values current when sent and "
        "a remaining time within +-1 s of the model's (0 iff indefinite); nothing for non-qualifying changes, after cancellation or "
        "after the lifetime; a re-subscription never yields two subscriptions; the active-subscription list equals the model's "
        "set. Non-trivial: timeline with a renewal, a cancellation or expiry followed by a change, or >= 2 subscriptions on one "
        "object. Distinct by the operation list."
        " Also: operations that refer back to earlier subscriptions (renew / cancel / write) and a renewal matrix of (old, new) lifetimes."
        " Sub-increment drift reported by a renewal, then steps measured from it."
        " One reduced copy of a generated shard runs with the library's debug tracing switched on (label tracing-on).")
ASSUMPTIONS = [
    "same-instant bursts: the library coalesces changes made before the event loop runs; 1..k notifications are accepted, the last carrying the final values",
    "analog objects with several subscriptions: 'last reported value' may be read per subscription or per object; a notification is required "
    "when the change qualifies under both readings, forbidden when under neither, accepted otherwise",
    "SubscribeCOV with the confirmed flag but no lifetime (or vice versa) is outside the stated domain and not generated",
    "a change of covIncrement itself is not generated",
]

OBJS = ("av", "bv", "msv", "pc")
SUBS = (1, 3, 4)
INC = 10.0


def build():
    L = lablib()
    from bacpypes.object import AnalogValueObject, BinaryValueObject, MultiStateValueObject, PulseConverterObject
    DeviceApp, ClientApp = LD.device_classes()
    lab = StackLab()
    boot.swallowed.take()
    dev = lab.add_stack(2, DeviceApp, retries=1, apdu_timeout=2000)
    objs = dict(
        av=AnalogValueObject(objectIdentifier=("analogValue", 1), objectName="av", presentValue=100.0, statusFlags=[0, 0, 0, 0], covIncrement=INC),
        bv=BinaryValueObject(objectIdentifier=("binaryValue", 1), objectName="bv", presentValue="inactive", statusFlags=[0, 0, 0, 0]),
        msv=MultiStateValueObject(objectIdentifier=("multiStateValue", 1), objectName="msv", presentValue=1, numberOfStates=8, statusFlags=[0, 0, 0, 0]),
        pc=PulseConverterObject(objectIdentifier=("pulseConverter", 1), objectName="pc", presentValue=100.0, statusFlags=[0, 0, 0, 0], covIncrement=INC, covPeriod=0),
    )
    for o in objs.values():
        dev.app.add_object(o)
    subs = dict((m, lab.add_stack(m, ClientApp)) for m in SUBS)
    return L, lab, dev, objs, subs


def val_of(kind, v):
    if kind == "bv":
        return "active" if v else "inactive"
    if kind == "msv":
        return 1 + int(v) % 8
    return float(v)


def run_timeline(ops):
    L, lab, dev, objs, subs = build()
    A = L.apdu
    fails = []
    stats = dict(renewals=0, changes_after_end=0, max_subs_on_obj=0, notifications=0)
    # model
    live = {}       # (sub mac, proc, obj) -> dict(confirmed, lifetime, expires, last_sent)
    state = dict((k, dict(pv=objs[k].presentValue, flags=[0, 0, 0, 0], last_any=objs[k].presentValue)) for k in OBJS)
    seen = dict((m, 0) for m in SUBS)
    conf_seen = dict((m, 0) for m in SUBS)
    ended = set()

    def analog(k):
        return k in ("av", "pc")

    def expire(now):
        for key in [key for key, e in live.items() if e["expires"] is not None and e["expires"] <= now]:
            del live[key]
            ended.add(key)

    def collect():
        """new notifications per (sub, proc, obj): list of dicts"""
        out = {}
        for m in SUBS:
            ind = subs[m].app.ind
            while seen[m] < len(ind):
                t, apdu = ind[seen[m]]
                seen[m] += 1
                if isinstance(apdu, (A.ConfirmedCOVNotificationRequest, A.UnconfirmedCOVNotificationRequest)):
                    oid = apdu.monitoredObjectIdentifier
                    k = {"analogValue": "av", "binaryValue": "bv", "multiStateValue": "msv", "pulseConverter": "pc"}.get(oid[0], "?")
                    vals = {}
                    for pvx in apdu.listOfValues:
                        pid = pvx.propertyIdentifier
                        try:
                            dt = objs[k].get_datatype(pid)
                            vals[pid] = pvx.value.cast_out(dt)
                        except Exception as err:
                            vals[pid] = "undecodable:%r" % (err,)
                    out.setdefault((m, apdu.subscriberProcessIdentifier, k), []).append(
                        dict(confirmed=isinstance(apdu, A.ConfirmedCOVNotificationRequest), remaining=apdu.timeRemaining, vals=vals, t=t,
                             dev=apdu.initiatingDeviceIdentifier))
                    stats["notifications"] += 1
        return out

    def check_notification(key, n, step):
        e = live.get(key)
        m, proc, k = key
        if e is None:
            return
        if n["confirmed"] != e["confirmed"]:
            fails.append(("notification-%s-for-%s-subscription" % ("confirmed" if n["confirmed"] else "unconfirmed", "confirmed" if e["confirmed"] else "unconfirmed"),
                          "step %r: subscription %r last asked for %s notifications" % (step, key, "confirmed" if e["confirmed"] else "unconfirmed")))
        want_pv = state[k]["pv"]
        got_pv = n["vals"].get("presentValue")
        if got_pv != want_pv:
            fails.append(("notification-stale-value:%s" % k, "step %r: notification to %r carries presentValue %r, current %r" % (step, key, got_pv, want_pv)))
        gf = n["vals"].get("statusFlags")
        if list(gf or []) != state[k]["flags"]:
            fails.append(("notification-stale-flags:%s" % k, "step %r: notification to %r carries statusFlags %r, current %r" % (step, key, gf, state[k]["flags"])))
        if e["expires"] is None:
            if n["remaining"] != 0:
                fails.append(("remaining-time:nonzero-for-indefinite", "step %r: %r reports time remaining %r" % (step, key, n["remaining"])))
        else:
            want = e["expires"] - lab.now
            if n["remaining"] == 0 or abs(n["remaining"] - want) > 1.0:
                fails.append(("remaining-time:off", "step %r: %r reports time remaining %r, model %.1f" % (step, key, n["remaining"], want)))
        if tuple(n["dev"]) != ("device", 2):
            fails.append(("notification-wrong-device", repr(n["dev"])))

    def expect(step, need):
        """need: dict key -> (min, max) notifications expected in this instant; every other live/ended key: (0, 0)"""
        got = collect()
        for key, ns in got.items():
            lo, hi = need.get(key, (0, 0))
            if len(ns) > hi:
                why = "not subscribed (never / cancelled / expired)" if key not in live else "no qualifying change"
                if key in ended and key not in live:
                    why = "subscription ended"
                fails.append(("unexpected-notification:%s" % ("ended" if key in ended and key not in live else ("not-qualifying" if key in live else "unknown-subscription")),
                              "step %r: %d notification(s) to %r, at most %d expected (%s)" % (step, len(ns), key, hi, why)))
            for n in ns[-1:]:
                check_notification(key, n, step)
        for key, (lo, hi) in need.items():
            if len(got.get(key, [])) < lo:
                fails.append(("missing-notification:%s" % key[2], "step %r: %d notification(s) to %r, at least %d expected" % (step, len(got.get(key, [])), key, lo)))
        return got

    def request(m, req):
        req.pduDestination = L.Address(2)
        n0 = len(subs[m].app.got)
        subs[m].app.request(req)
        lab.settle()
        if len(subs[m].app.got) == n0:
            lab.run(lab.now + 0.0)
        return subs[m].app.got[-1][1] if len(subs[m].app.got) > n0 else None

    used_keys = []
    for step in ops:
        k = step[0]
        if k in ("resub", "recancel", "repv"):
            # refer back to a subscription made earlier in this timeline (the j-th distinct one)
            if not used_keys:
                continue
            m_, proc_, ob_ = used_keys[step[1] % len(used_keys)]
            if k == "resub":
                step = ["sub", SUBS.index(m_), proc_, ob_, step[2], step[3]]
            elif k == "recancel":
                step = ["cancel", SUBS.index(m_), proc_, ob_]
            else:
                step = ["pv", ob_, step[2]]
            k = step[0]
        try:
            if k == "sub":
                _, si, proc, ob, confirmed, lifetime = step
                m = SUBS[si % 3]
                key = (m, proc, ob)
                if key not in used_keys:
                    used_keys.append(key)
                req = A.SubscribeCOVRequest(subscriberProcessIdentifier=proc, monitoredObjectIdentifier=objs[ob].objectIdentifier,
                                            issueConfirmedNotifications=bool(confirmed), lifetime=lifetime)
                r = request(m, req)
                if not isinstance(r, A.SimpleAckPDU):
                    fails.append(("subscribe-not-acked", "step %r answered %r" % (step, r)))
                    break
                if key in live:
                    stats["renewals"] += 1
                live[key] = dict(confirmed=bool(confirmed), lifetime=lifetime, expires=(lab.now + lifetime) if lifetime else None, last_sent=state[ob]["pv"])
                ended.discard(key)
                state[ob]["last_any"] = state[ob]["pv"]
                stats["max_subs_on_obj"] = max(stats["max_subs_on_obj"], len([1 for kk in live if kk[2] == ob]))
                expect(step, {key: (1, 1)})
            elif k == "cancel":
                _, si, proc, ob = step
                m = SUBS[si % 3]
                key = (m, proc, ob)
                req = A.SubscribeCOVRequest(subscriberProcessIdentifier=proc, monitoredObjectIdentifier=objs[ob].objectIdentifier)
                r = request(m, req)
                if not isinstance(r, A.SimpleAckPDU):
                    fails.append(("cancel-not-acked", "step %r answered %r" % (step, r)))
                    break
                if key in live:
                    del live[key]
                    ended.add(key)
                expect(step, {})
            elif k in ("pv", "burst"):
                ob = step[1]
                writes = [step[2]] if k == "pv" else list(step[2])
                need = {}
                keys = [kk for kk in live if kk[2] == ob]
                old = state[ob]["pv"]
                if ended and any(kk[2] == ob for kk in ended):
                    stats["changes_after_end"] += 1
                nq_both = dict((kk, 0) for kk in keys)
                nq_either = dict((kk, 0) for kk in keys)
                cur = old
                for w in writes:
                    v = val_of(ob, w)
                    if analog(ob):
                        for kk in keys:
                            q_obj = abs(v - state[ob]["last_any"]) >= INC
                            q_sub = abs(v - live[kk]["last_sent"]) >= INC
                            nq_both[kk] += 1 if (q_obj and q_sub) else 0
                            nq_either[kk] += 1 if (q_obj or q_sub) else 0
                    else:
                        for kk in keys:
                            if v != cur:
                                nq_both[kk] += 1
                                nq_either[kk] += 1
                    objs[ob].presentValue = v
                    cur = v
                state[ob]["pv"] = cur
                for kk in keys:
                    lo = 1 if nq_both[kk] >= 1 else 0
                    hi = nq_either[kk]
                    if len(writes) == 1 and not analog(ob):
                        hi = lo
                    need[kk] = (lo, max(lo, hi))
                lab.settle()
                got = expect(step, need)
                notified = [kk for kk in keys if got.get(kk)]
                for kk in notified:
                    live[kk]["last_sent"] = cur
                if notified:
                    state[ob]["last_any"] = cur
            elif k == "flags":
                ob, bits = step[1], list(step[2])
                keys = [kk for kk in live if kk[2] == ob]
                changed = bits != state[ob]["flags"]
                objs[ob].statusFlags = bits
                state[ob]["flags"] = bits
                lab.settle()
                got = expect(step, dict((kk, (1, 1) if changed else (0, 0)) for kk in keys))
                for kk in keys:
                    if got.get(kk):
                        live[kk]["last_sent"] = state[ob]["pv"]
                        state[ob]["last_any"] = state[ob]["pv"]
            elif k == "adv":
                lab.run(lab.now + float(step[1]))
                VC.clk.now = max(VC.clk.now, lab.now)
                expire(lab.now)
                expect(step, {})
            elif k == "read":
                m = SUBS[step[1] % 3]
                r = request(m, A.ReadPropertyRequest(objectIdentifier=("device", 2), propertyIdentifier="activeCovSubscriptions"))
                expect(step, {})
                if not isinstance(r, A.ReadPropertyACK):
                    fails.append(("active-list:read-failed", "answered %r" % (r,)))
                    break
                from bacpypes.basetypes import COVSubscription
                from bacpypes.constructeddata import ListOf
                lst = r.propertyValue.cast_out(ListOf(COVSubscription))
                got = {}
                for e in lst:
                    mac = bytes(e.recipient.recipient.address.macAddress)[0]
                    oid = e.monitoredPropertyReference.objectIdentifier
                    kk = (mac, e.recipient.processIdentifier, {"analogValue": "av", "binaryValue": "bv", "multiStateValue": "msv", "pulseConverter": "pc"}[oid[0]])
                    if kk in got:
                        fails.append(("active-list:duplicate-entry", "step %r: %r listed twice" % (step, kk)))
                    got[kk] = (bool(e.issueConfirmedNotifications), e.timeRemaining)
                if set(got) != set(live):
                    extra, missing = set(got) - set(live), set(live) - set(got)
                    fails.append(("active-list:%s" % ("lists-dead-subscription" if extra else "misses-live-subscription"),
                                  "step %r: listed %r, model %r" % (step, sorted(got), sorted(live))))
                else:
                    for kk, (cf, rem) in got.items():
                        e = live[kk]
                        if cf != e["confirmed"]:
                            fails.append(("active-list:confirmed-flag", "step %r: %r listed as %s" % (step, kk, "confirmed" if cf else "unconfirmed")))
                        want = 0 if e["expires"] is None else e["expires"] - lab.now
                        if (e["expires"] is None) != (rem == 0) or (e["expires"] is not None and abs(rem - want) > 1.0):
                            fails.append(("active-list:remaining-time", "step %r: %r listed with time remaining %r, model %.1f" % (step, kk, rem, want)))
        except Exception as err:
            import traceback
            fails.append(("step-raised:%s:%s" % (k, type(err).__name__), "step %r raised %r %s" % (step, err, traceback.format_exc()[-300:])))
        sw = [r for r in boot.swallowed.take() if r[0]]
        if sw and not fails:
            fails.append(("swallowed:%s@%s" % (sw[0][0], sw[0][1]), "step %r: the event loop swallowed %r" % (step, sw[0])))
        if fails:
            break
    return fails[:3], stats


def judge(case):
    try:
        with watchdog(90):
            fails, stats = run_timeline(case["ops"])
    except Stall:
        return Verdict([("stall", "no return within 90 s")], True, ("stall",))
    nt = stats["renewals"] > 0 or stats["changes_after_end"] > 0 or stats["max_subs_on_obj"] >= 2
    labels = []
    if stats["renewals"]:
        labels.append("renewal")
    if stats["changes_after_end"]:
        labels.append("change-after-end")
    if stats["max_subs_on_obj"] >= 2:
        labels.append("multi-subscriber")
    return Verdict(fails, nt, labels or ["plain"])


# ---- generation ---------------------------------------------------------------------------------------------------------------

def op_strategy():
    from hypothesis import strategies as st
    ob = st.sampled_from(OBJS)
    sub = st.tuples(st.just("sub"), st.integers(0, 2), st.integers(1, 2), ob, st.booleans(), st.one_of(st.sampled_from([0, 1, 5, 30, 60, 120]), st.integers(0, 120))).map(list)
    cancel = st.tuples(st.just("cancel"), st.integers(0, 2), st.integers(1, 2), ob).map(list)
    val = st.sampled_from([100, 100, 105, 109, 110, 111, 120, 95, 90, 89, 0, 1, 2, 3, 7, 200, 103, 106, 112, 114, 116, 119, 97, 94, 91, 84, 121, 126])
    pv = st.tuples(st.just("pv"), ob, val).map(list)
    burst = st.tuples(st.just("burst"), ob, st.lists(val, min_size=2, max_size=4)).map(list)
    flags = st.tuples(st.just("flags"), ob, st.lists(st.integers(0, 1), min_size=4, max_size=4)).map(list)
    adv = st.tuples(st.just("adv"), st.sampled_from([0.5, 1.0, 4.0, 5.0, 7.3, 29.5, 30.0, 61.0, 120.4])).map(list)
    read = st.tuples(st.just("read"), st.integers(0, 2)).map(list)
    lt = st.one_of(st.sampled_from([0, 0, 1, 5, 30, 60, 120]), st.integers(0, 120))
    resub = st.tuples(st.just("resub"), st.integers(0, 5), st.booleans(), lt).map(list)
    recancel = st.tuples(st.just("recancel"), st.integers(0, 5)).map(list)
    repv = st.tuples(st.just("repv"), st.integers(0, 5), val).map(list)
    return st.one_of(sub, sub, resub, resub, cancel, recancel, pv, pv, repv, repv, burst, flags, adv, adv, adv, read)


def plan(tier, seed):
    specs = [dict(name="timelines-%d" % i, kind="timelines", n=1000 if tier == "quick" else 40000) for i in range(16)]
    specs.append(dict(name="directed", kind="directed"))
    # once more with the library's debug tracing switched on
    specs.append(dict(name="tracing-timelines", kind="timelines", n=150 if tier == "quick" else 5000, tracing=True))
    return specs


def run(spec, ctx):
    if spec["kind"] == "timelines":
        from hypothesis import strategies as st
        strat = st.lists(op_strategy(), min_size=1, max_size=30).map(lambda ops: dict(k="t", ops=ops))
        ctx.for_all(strat, spec["n"])
    else:
        for ob in OBJS:
            for conf in (False, True):
                for lt in (0, 5, 120):
                    base = [["sub", 0, 1, ob, conf, lt]]
                    ctx.check(dict(k="t", ops=base + [["pv", ob, 130], ["pv", ob, 131], ["pv", ob, 100], ["flags", ob, [1, 0, 0, 0]], ["read", 1]]))
                    ctx.check(dict(k="t", ops=base + [["sub", 0, 1, ob, not conf, 30], ["pv", ob, 150], ["read", 0], ["adv", 31.0], ["pv", ob, 100], ["read", 0]]))
                    ctx.check(dict(k="t", ops=base + [["sub", 1, 1, ob, conf, 10], ["sub", 2, 2, ob, not conf, 0], ["pv", ob, 170], ["cancel", 0, 1, ob], ["pv", ob, 100],
                                                      ["adv", 11.0], ["pv", ob, 140], ["read", 2]]))
                    ctx.check(dict(k="t", ops=base + [["cancel", 0, 1, ob], ["pv", ob, 177], ["sub", 0, 1, ob, conf, lt], ["pv", ob, 100], ["adv", 6.0], ["pv", ob, 133]]))
                    # the value drifts by less than the increment, a renewal reports it; the next steps are measured from what the renewal said
                    for drift in (106, 94, 109):
                        for nxt in (112, 117, 100, 90, 103, 115, 119, 84):
                            ctx.check(dict(k="t", ops=base + [["pv", ob, drift], ["sub", 0, 1, ob, conf, lt], ["pv", ob, nxt], ["pv", ob, drift], ["pv", ob, nxt + 1], ["read", 0]]))
                    # renewal matrix: every (old lifetime, new lifetime) pair, renewed early or late, observed before and after both expiry instants
                    for lt2 in (0, 5, 20, 120):
                        for wait in (1.0, 4.0):
                            ctx.check(dict(k="t", ops=base + [["adv", wait], ["sub", 0, 1, ob, conf, lt2], ["pv", ob, 150], ["adv", 4.5], ["pv", ob, 100], ["read", 0], ["adv", 2.0], ["pv", ob, 160],
                                                              ["adv", 15.0], ["pv", ob, 100], ["read", 0], ["adv", 101.0], ["pv", ob, 170], ["read", 0]]))
                    ctx.check(dict(k="t", ops=base + [["burst", ob, [120, 140]], ["burst", ob, [160, 140]], ["pv", ob, 128], ["pv", ob, 135], ["pv", ob, 151]]))
