"""C20 -- a schedule shows the value its calendar dictates at every instant, never stale."""
import datetime, calendar
from ..runner import Verdict, watchdog, Stall
from .. import clock as VC
from .. import boot
from ..ref import schedule as RS

ID = "C20"
LEVEL = "exploration"
RULE = ("(a) Matchers: EVERY calendar date 1900-01-01..2154-12-31 against every pattern class - specific dates, any/odd/even month, "
        "last/odd/even day, each day of week, year wildcard and combinations; week-n-day with months {1..12,13,14,255} x weeks "
        "{1..9,255} x days {1..7,255}; date ranges fully specified and open at either or both ends - oracle: predicates written "
        "with python datetime/calendar. (b) Hypothesis schedules: effective period (specified / open-ended, containing / excluding "
        "the probe dates), weekly schedule with 0..4 sorted distinct time-values per day (values and Null), 0..4 special events "
        "with distinct priorities, 0..4 sorted time-values each, periods of all four kinds (date, range, week-n-day, calendar "
        "reference to a calendar object in the application), datatypes Real / Unsigned / Boolean / Enumerated; evaluated at EVERY "
        "minute of sampled days and at every configured time +- one hundredth; oracle: direct interpreter of clause 12.24, and "
        "for the returned next-transition time nt the reference value must be constant on [t, nt) (checked at every configured "
        "time inside the interval - exact, not sampled). (c) Timer-driven: a LocalScheduleObject inside an application under "
        "virtual time for 3..10 days starting before, inside and after the effective period: presentValue equals the reference "
        "value at every minute inside the period and the interpreter task stays scheduled after every midnight and across the "
        "edges of the period. Non-trivial: schedule with >= 1 exception in force on the probe date, or a Null entry, or a probe "
        "date at an edge of the effective period. Distinct by (schedule, date)."
        " Also: weekly-only and exception-only schedules; timer-driven runs in the EST5EDT zone (summer, winter, across both clock changes)."
        " One reduced copy of a generated shard runs with the library's debug tracing switched on (label tracing-on).")
ASSUMPTIONS = [
    "time-value lists are sorted with distinct times; exceptions have distinct priorities; date-range ends are fully specified or fully unspecified",
    "TZ=UTC except in the runs labelled timer:dst-zone (EST5EDT); there the three hours on either side of a clock change are not judged",
    "outside the effective period the present value is not judged (the statement does not fix it); the interpreter must keep running",
    "timer-driven runs use whole-minute transition times: the interpreter arms its timer with one-second resolution (hundredths are dropped), which is observed, not judged",
]

_lib = None


class _L(object):
    pass


def lib():
    global _lib
    if _lib is None:
        L = _L()
        VC.install(0.0)
        from bacpypes.local import schedule as S
        from bacpypes import primitivedata as P, basetypes as B, constructeddata as C
        from bacpypes.object import CalendarObject
        from bacpypes.app import Application
        from bacpypes.local.device import LocalDeviceObject
        L.S, L.P, L.B, L.C, L.CalendarObject, L.Application, L.LocalDeviceObject = S, P, B, C, CalendarObject, Application, LocalDeviceObject
        _lib = L
    return _lib


# ---- (a) matchers ---------------------------------------------------------------------------------------------------------------

def date_patterns():
    pats = []
    for pm in (255, 13, 14, 1, 2, 6, 12):
        for pd in (255, 32, 33, 34, 1, 15, 28, 29, 30, 31):
            for pdow in (255, 1, 5, 7):
                pats.append((255, pm, pd, pdow))
    for py in (0, 100, 124, 254):
        pats += [(py, 255, 255, 255), (py, 2, 29, 255), (py, 13, 32, 255), (py, 14, 34, 3)]
    return pats


def weeknday_patterns():
    return [(pm, pw, pd) for pm in list(range(1, 13)) + [13, 14, 255] for pw in list(range(1, 10)) + [255] for pd in list(range(1, 8)) + [255]]


def range_patterns():
    pts = [(0, 1, 1), (99, 12, 31), (100, 1, 1), (100, 2, 29), (124, 2, 29), (124, 3, 1), (200, 6, 15), (254, 12, 31)]
    out = []
    for s in pts + [None]:
        for e in pts + [None]:
            if s and e and s > e:
                continue
            out.append((s, e))
    return out


def check_matchers_year(year):
    """all dates of one year against all patterns; returns (evaluations, fails)"""
    L = lib()
    S, B = L.S, L.B
    fails = []
    n = 0
    dps = date_patterns()
    wps = weeknday_patterns()
    rps = range_patterns()
    robj = [(B.DateRange(startDate=(s + (255,)) if s else (255, 255, 255, 255), endDate=(e + (255,)) if e else (255, 255, 255, 255)), s, e) for s, e in rps]
    d = datetime.date(year, 1, 1)
    while d.year == year:
        date = (d.year - 1900, d.month, d.day, d.isoweekday())
        for pat in dps:
            n += 1
            if S.match_date(date, pat) != RS.match_date(date, pat):
                fails.append(("match_date:%s" % _pat_class(pat), dict(k="match", fn="date", date=list(date), pat=list(pat)),
                              "match_date(%r, %r) = %r, calendar says %r" % (date, pat, S.match_date(date, pat), RS.match_date(date, pat))))
        for w in wps:
            n += 1
            got = S.match_weeknday(date, bytes(w))
            if got != RS.match_weeknday(date, w):
                fails.append(("match_weeknday:week%d" % w[1], dict(k="match", fn="wnd", date=list(date), pat=list(w)),
                              "match_weeknday(%r, %r) = %r, calendar says %r" % (date, w, got, not got)))
        for ro, s, e in robj:
            n += 1
            got = S.match_date_range(date, ro)
            if got != RS.match_range(date, s, e):
                fails.append(("match_date_range:%s" % ("open" if (s is None or e is None) else "closed"), dict(k="match", fn="range", date=list(date), pat=[list(s) if s else None, list(e) if e else None]),
                              "match_date_range(%r, %r..%r) = %r, calendar says %r" % (date, s, e, got, not got)))
        d += datetime.timedelta(days=1)
    return n, fails


def _pat_class(pat):
    return "m%s-d%s-w%s" % ("any" if pat[1] == 255 else ("odd" if pat[1] == 13 else "even" if pat[1] == 14 else "n"),
                            {255: "any", 32: "last", 33: "odd", 34: "even"}.get(pat[2], "n"), "any" if pat[3] == 255 else "n")


def check_match_case(case):
    L = lib()
    S, B = L.S, L.B
    date = tuple(case["date"])
    if case["fn"] == "date":
        pat = tuple(case["pat"])
        g, w = S.match_date(date, pat), RS.match_date(date, pat)
        return [] if g == w else [("match_date:%s" % _pat_class(pat), "match_date(%r, %r) = %r, calendar says %r" % (date, pat, g, w))]
    if case["fn"] == "wnd":
        w_ = tuple(case["pat"])
        g, w = S.match_weeknday(date, bytes(w_)), RS.match_weeknday(date, w_)
        return [] if g == w else [("match_weeknday:week%d" % w_[1], "match_weeknday(%r, %r) = %r, calendar says %r" % (date, w_, g, w))]
    s, e = case["pat"]
    s = tuple(s) if s else None
    e = tuple(e) if e else None
    ro = B.DateRange(startDate=(s + (255,)) if s else (255, 255, 255, 255), endDate=(e + (255,)) if e else (255, 255, 255, 255))
    g, w = S.match_date_range(date, ro), RS.match_range(date, s, e)
    return [] if g == w else [("match_date_range:%s" % ("open" if (s is None or e is None) else "closed"), "match_date_range(%r, %r..%r) = %r, calendar says %r" % (date, s, e, g, w))]


# ---- (b) schedules ------------------------------------------------------------------------------------------------------------------

def atom(dtype, v):
    P, B = lib().P, lib().B
    if v is None:
        return P.Null()
    if dtype == "Real":
        return P.Real(float(v))
    if dtype == "Unsigned":
        return P.Unsigned(int(v))
    if dtype == "Boolean":
        return P.Boolean(bool(v % 2))
    if dtype == "Enumerated":
        return B.BinaryPV(["inactive", "active"][v % 2])
    raise ValueError(dtype)


def val(dtype, v):
    """model value comparable with atom(dtype, v).value"""
    if v is None:
        return None
    if dtype == "Real":
        return float(v)
    if dtype == "Unsigned":
        return int(v)
    if dtype == "Boolean":
        return bool(v % 2)
    if dtype == "Enumerated":
        return ["inactive", "active"][v % 2]


def entry_to_lib(e):
    B, P = lib().B, lib().P
    if e[0] == "date":
        return B.CalendarEntry(date=tuple(e[1]))
    if e[0] == "range":
        return B.CalendarEntry(dateRange=B.DateRange(startDate=tuple(e[1]) + (255,) if e[1] else (255, 255, 255, 255),
                                                     endDate=tuple(e[2]) + (255,) if e[2] else (255, 255, 255, 255)))
    if e[0] == "wnd":
        return B.CalendarEntry(weekNDay=bytes(e[1]))


def build_schedule(sched, with_app=True):
    """-> (schedule object, application or None)"""
    L = lib()
    B, P, C = L.B, L.P, L.C
    dt = sched["dtype"]
    tv = lambda t: B.TimeValue(time=tuple(t[0]), value=atom(dt, t[1]))
    weekly = C.ArrayOf(B.DailySchedule)([B.DailySchedule(daySchedule=[tv(t) for t in day]) for day in sched["weekly"]])
    exs = []
    for ex in sched["exceptions"]:
        if ex["period"][0] == "cal":
            period = B.SpecialEventPeriod(calendarReference=("calendar", ex["period"][1] + 1))
        else:
            period = B.SpecialEventPeriod(calendarEntry=entry_to_lib(ex["period"]))
        exs.append(B.SpecialEvent(period=period, listOfTimeValues=[tv(t) for t in ex["tv"]], eventPriority=ex["prio"]))
    s, e = sched["effective"]
    eff = B.DateRange(startDate=tuple(s) + (255,) if s else (255, 255, 255, 255), endDate=tuple(e) + (255,) if e else (255, 255, 255, 255))
    app = None
    if with_app:
        class App(L.Application):
            _startup_disabled = True
        dev = L.LocalDeviceObject(objectName="dev", objectIdentifier=("device", 1), vendorIdentifier=999)
        app = App(dev)
        for i, cal in enumerate(sched.get("calendars", [])):
            app.add_object(L.CalendarObject(objectIdentifier=("calendar", i + 1), objectName="cal%d" % i, dateList=[entry_to_lib(e_) for e_ in cal]))
    kw = dict(weeklySchedule=weekly, exceptionSchedule=C.ArrayOf(B.SpecialEvent)(exs))
    # a schedule may have only one of the two (the other property is absent, not empty)
    if sched.get("shape") == "no-weekly":
        del kw["weeklySchedule"]
    elif sched.get("shape") == "no-exceptions":
        del kw["exceptionSchedule"]
    so = L.S.LocalScheduleObject(objectIdentifier=("schedule", 1), objectName="sched", presentValue=atom(dt, sched["default"]), effectivePeriod=eff,
                                 scheduleDefault=atom(dt, sched["default"]), **kw)
    if app is not None:
        app.add_object(so)
    return so, app


def check_eval(sched, dates, every_minute):
    L = lib()
    VC.reset(0.0)
    so, app = build_schedule(sched)
    if so.reliability != "noFaultDetected":
        return [("eval:configuration-rejected", "the schedule object reports reliability %r for an in-domain configuration %r" % (so.reliability, sched))], 0
    interp = so._task
    fails = []
    n = 0
    dt = sched["dtype"]
    for date in dates:
        date = tuple(date)
        probe = set()
        for t in RS.times_of_day(sched, date):
            probe.add(t)
            h, m, s, hs = t
            total = ((h * 60 + m) * 60 + s) * 100 + hs
            for d_ in (-1, 1):
                tt = total + d_
                if 0 <= tt < 24 * 360000:
                    probe.add((tt // 360000, (tt // 6000) % 60, (tt // 100) % 60, tt % 100))
        probe.add((0, 0, 0, 0))
        probe.add((23, 59, 59, 99))
        if every_minute:
            for mm in range(0, 1440):
                probe.add((mm // 60, mm % 60, 0, 0))
        for t in sorted(probe):
            n += 1
            want = RS.evaluate(sched, date, t)
            try:
                got = interp.eval(date, t)
            except Exception as err:
                return [("eval:raised:%s" % type(err).__name__, "eval(%r, %r) raised %r on %r" % (date, t, err, sched))], n
            if want[0] == "outside":
                if got is not None:
                    fails.append(("eval:value-outside-effective-period", "eval(%r, %r) = %r although the date is outside the effective period %r" % (date, t, got, sched["effective"])))
                continue
            if got is None:
                fails.append(("eval:none-inside-effective-period", "eval(%r, %r) = None although the date is inside the effective period %r" % (date, t, sched["effective"])))
                break
            gv, nt = got
            if gv.value != val(dt, want[1]):
                layer = "exception" if any(RS.period_matches(date, ex["period"], sched.get("calendars", [])) for ex in sched["exceptions"]) else "weekly"
                fails.append(("eval:wrong-value:%s" % layer, "eval(%r, %r) = %r, clause 12.24 says %r; schedule %r" % (date, t, gv.value, val(dt, want[1]), sched)))
                break
            # never stale: the reference value is constant on [t, nt)
            nt = tuple(nt)
            if nt <= t:
                fails.append(("eval:next-transition-not-later", "eval(%r, %r) reports next transition %r" % (date, t, nt)))
                break
            for t2 in RS.times_of_day(sched, date):
                if t < t2 < nt and RS.evaluate(sched, date, t2) != want:
                    fails.append(("eval:stale-until-next-transition", "eval(%r, %r) reports next transition %r but the value changes at %r (%r -> %r); schedule %r"
                                  % (date, t, nt, t2, want[1], RS.evaluate(sched, date, t2)[1], sched)))
                    break
            if fails:
                break
        if fails:
            break
    return fails[:2], n


# ---- (c) timer driven -------------------------------------------------------------------------------------------------------------------

def check_timer(sched, start, days, tz=None):
    if tz is None:
        return _check_timer(sched, start, days, None)
    # a zone with daylight-saving time: the interpreter works on local wall-clock time
    import os, time as _t
    os.environ["TZ"] = tz
    _t.tzset()
    try:
        return _check_timer(sched, start, days, tz)
    finally:
        os.environ["TZ"] = "UTC"
        _t.tzset()


def _local(t, tz):
    """-> (date tuple, time tuple, iso text, judged?) of the virtual instant t in the zone under test"""
    if tz is None:
        d = datetime.datetime.utcfromtimestamp(t)
        return (d.year - 1900, d.month, d.day, d.isoweekday()), (d.hour, d.minute, d.second, 0), d.isoformat(), True
    import time as _t
    lt = _t.localtime(t)
    # around a clock change wall-clock time is not monotonic / has a gap: those hours are not judged
    near = _t.localtime(t - 3 * 3600).tm_isdst != _t.localtime(t + 3 * 3600).tm_isdst
    return (lt.tm_year - 1900, lt.tm_mon, lt.tm_mday, lt.tm_wday + 1), (lt.tm_hour, lt.tm_min, lt.tm_sec, 0), _t.strftime("%Y-%m-%dT%H:%M:%S %Z", lt), not near


def _check_timer(sched, start, days, tz):
    """start: [y-1900, m, d]; run the real interpreter task under virtual time, compare presentValue every minute"""
    L = lib()
    if tz is None:
        t0 = calendar.timegm((start[0] + 1900, start[1], start[2], 0, 0, 0)) + 37 * 60.0      # start at 00:37
    else:
        import time as _t
        t0 = _t.mktime((start[0] + 1900, start[1], start[2], 0, 37, 0, 0, 0, -1))
    VC.reset(t0)
    boot.swallowed.take()
    so, app = build_schedule(sched)
    if so.reliability != "noFaultDetected":
        return [("timer:configuration-rejected", repr(so.reliability))], 0
    dt = sched["dtype"]
    n = 0
    try:
        VC.settle(max_iter=20000)
    except RuntimeError:
        return [("timer:live-lock", "right after start-up (00:37) the interpreter re-arms itself for the current instant over and over: time cannot advance; schedule %r" % (sched,))], n
    end = t0 + days * 86400
    t = t0
    while t < end:
        try:
            VC.pump(t, max_iter=20000)
        except RuntimeError:
            d = datetime.datetime.utcfromtimestamp(VC.clk.now)
            return [("timer:live-lock", "at %s the interpreter re-arms itself for the current instant over and over (20000 times): time cannot advance; schedule %r" % (d.isoformat(), sched))], n
        VC.clk.now = t
        n += 1
        date, tm, iso, judged = _local(t, tz)

        class d(object):
            @staticmethod
            def isoformat():
                return iso
        want = RS.evaluate(sched, date, tm)
        if not judged:
            boot.swallowed.take()
            t += 60.0
            continue
        sw = [r for r in boot.swallowed.take() if r[0]]
        if sw:
            return [("timer:task-raised:%s@%s" % (sw[0][0], sw[0][1]), "at %s the interpreter task raised %r; schedule %r" % (d.isoformat(), sw[0], sched))], n
        if not so._task.isScheduled:
            where = "outside" if want[0] == "outside" else "inside"
            return [("timer:interpreter-not-rearmed:%s-effective-period" % where, "at %s the interpreter task is no longer scheduled; schedule %r" % (d.isoformat(), sched))], n
        if want[0] == "value" and so.presentValue.value != val(dt, want[1]):
            return [("timer:stale-present-value", "at %s presentValue is %r, clause 12.24 says %r; schedule %r" % (d.isoformat(), so.presentValue.value, val(dt, want[1]), sched))], n
        t += 60.0
    return [], n


# ---- judge ---------------------------------------------------------------------------------------------------------------------------------

def sched_nontrivial(sched, dates):
    has_null = any(tv[1] is None for day in sched["weekly"] for tv in day) or any(tv[1] is None for ex in sched["exceptions"] for tv in ex["tv"])
    in_force = any(RS.period_matches(tuple(d), ex["period"], sched.get("calendars", [])) for d in dates for ex in sched["exceptions"])
    s, e = sched["effective"]
    edge = any((s and tuple(d[:3]) == tuple(s)) or (e and tuple(d[:3]) == tuple(e)) for d in dates)
    return has_null or in_force or edge


def judge(case):
    k = case["k"]
    try:
        with watchdog(120):
            if k == "match":
                return Verdict(check_match_case(case), True, ("match",))
            if k == "eval":
                fails, n = check_eval(case["sched"], case["dates"], case.get("every_minute", False))
                return Verdict(fails, sched_nontrivial(case["sched"], case["dates"]), ("eval",))
            if k == "timer":
                fails, n = check_timer(case["sched"], case["start"], case["days"], case.get("tz"))
                return Verdict(fails, True, ("timer",) if not case.get("tz") else ("timer", "timer:dst-zone"))
    except Stall:
        return Verdict([("stall", "no return within 120 s")], True, ("stall",))
    raise ValueError(k)


# ---- generation -----------------------------------------------------------------------------------------------------------------------------

def sched_strategy(whole_seconds=False):
    from hypothesis import strategies as st
    if whole_seconds:
        # the timer is armed with one-second resolution (datetime_to_time drops the hundredths)
        tm = st.one_of(st.sampled_from([(0, 0, 0, 0), (8, 0, 0, 0), (12, 0, 0, 0), (17, 30, 0, 0), (23, 59, 0, 0), (0, 37, 0, 0), (0, 38, 0, 0)]),
                       st.tuples(st.integers(0, 23), st.integers(0, 59), st.just(0), st.just(0))).map(list)
    else:
        tm = st.one_of(st.sampled_from([(0, 0, 0, 0), (8, 0, 0, 0), (12, 0, 0, 0), (17, 30, 0, 0), (23, 59, 59, 99), (6, 15, 30, 50)]),
                       st.tuples(st.integers(0, 23), st.integers(0, 59), st.sampled_from([0, 30]), st.sampled_from([0, 50]))).map(list)
    value = st.one_of(st.none(), st.integers(0, 9), st.integers(0, 9))
    tvs = st.lists(st.tuples(tm, value).map(list), max_size=4, unique_by=lambda tv: tuple(tv[0])).map(lambda l: sorted(l, key=lambda tv: tuple(tv[0])))
    base = datetime.date(2024, 2, 26)
    probe_days = [base + datetime.timedelta(days=i) for i in range(0, 9)]

    def rd(d):
        return [d.year - 1900, d.month, d.day]
    day = st.sampled_from(probe_days)
    date_pat = st.one_of(day.map(lambda d: ["date", [d.year - 1900, d.month, d.day, 255]]),
                         day.map(lambda d: ["date", [255, d.month, d.day, 255]]),
                         st.sampled_from([["date", [255, 255, 255, 1]], ["date", [255, 255, 255, 5]], ["date", [255, 14, 255, 255]], ["date", [255, 13, 33, 255]],
                                          ["date", [255, 255, 32, 255]], ["date", [255, 255, 34, 255]], ["date", [124, 2, 29, 4]]]))
    rng = st.tuples(st.one_of(st.none(), day), st.one_of(st.none(), day)).map(
        lambda t: ["range", rd(min(t)) if t[0] and t[1] else (rd(t[0]) if t[0] else None), rd(max(t)) if t[0] and t[1] else (rd(t[1]) if t[1] else None)])
    wnd = st.tuples(st.sampled_from([255, 2, 3, 13, 14]), st.sampled_from([255, 1, 4, 5, 6, 7]), st.sampled_from([255, 1, 2, 4, 7])).map(lambda t: ["wnd", list(t)])
    entry = st.one_of(date_pat, rng, wnd)
    calendars = st.lists(st.lists(entry, max_size=3), min_size=1, max_size=2)
    period = st.one_of(entry, entry, st.integers(0, 0).map(lambda i: ["cal", i]))
    exc = st.lists(st.tuples(st.integers(1, 16), period, tvs), max_size=4, unique_by=lambda t: t[0]).map(lambda l: [dict(prio=p, period=per, tv=tv) for p, per, tv in l])
    eff = st.one_of(st.just([None, None]), st.just([[0, 1, 1], [254, 12, 31]]), rng.map(lambda r: [r[1], r[2]]))
    def shape(d):
        if d["shape"] == "no-weekly":
            d["weekly"] = [[] for _ in range(7)]
        elif d["shape"] == "no-exceptions":
            d["exceptions"] = []
        return d
    return st.fixed_dictionaries(dict(effective=eff, weekly=st.lists(tvs, min_size=7, max_size=7), exceptions=exc, calendars=calendars,
                                      default=st.integers(0, 9), dtype=st.sampled_from(["Real", "Unsigned", "Boolean", "Enumerated"]),
                                      shape=st.sampled_from(["both", "both", "both", "no-weekly", "no-weekly", "no-exceptions"]))).map(shape), probe_days


def plan(tier, seed):
    specs = []
    years = list(range(1900, 2155))
    nsh = 16
    step = 1 if tier == "thorough" else 1
    for i in range(nsh):
        specs.append(dict(name="matchers-%d" % i, kind="matchers", years=years[i::nsh]))
    for i in range(8):
        specs.append(dict(name="eval-%d" % i, kind="eval", n=220 if tier == "quick" else 8000))
    for i in range(8):
        specs.append(dict(name="timer-%d" % i, kind="timer", n=45 if tier == "quick" else 1500))
    # once more with the library's debug tracing switched on
    specs.append(dict(name="tracing-eval", kind="eval", n=40 if tier == "quick" else 1500, tracing=True))
    specs.append(dict(name="tracing-timer", kind="timer", n=10 if tier == "quick" else 300, tracing=True))
    return specs


def run(spec, ctx):
    kind = spec["kind"]
    if kind == "matchers":
        total = 0
        for y in spec["years"]:
            n, fails = check_matchers_year(y)
            total += n
            for sig, case, msg in fails:
                ctx.fail(case, sig, msg)
        ctx.bulk(total, total, "match", dict(k="match", fn="wnd", date=[124, 2, 29, 4], pat=[2, 6, 4]))
        ctx.mark_exhaustive("every date of the years %d..%d (step 16) against all date / week-n-day / range patterns" % (spec["years"][0], spec["years"][-1]))
    elif kind == "eval":
        from hypothesis import strategies as st
        ss, probe_days = sched_strategy()
        dates = [[d.year - 1900, d.month, d.day, d.isoweekday()] for d in probe_days]
        strat = st.tuples(ss, st.lists(st.sampled_from(dates), min_size=1, max_size=3, unique_by=tuple), st.sampled_from([False, False, True])).map(
            lambda t: dict(k="eval", sched=t[0], dates=t[1], every_minute=t[2]))
        ctx.for_all(strat, spec["n"])
    elif kind == "timer":
        from hypothesis import strategies as st
        ss, probe_days = sched_strategy(whole_seconds=True)
        starts = [[d.year - 1900, d.month, d.day] for d in probe_days[:6]] + [[124, 2, 20], [124, 3, 10]]
        strat = st.tuples(ss, st.sampled_from(starts), st.integers(3, 10)).map(lambda t: dict(k="timer", sched=t[0], start=t[1], days=t[2]))
        ctx.for_all(strat, spec["n"])
        # directed: runs that start before the effective period and cross into and out of it, with transitions right after midnight
        import datetime as _dt
        for d0 in probe_days[:3]:
            for lead, length in ((1, 2), (2, 3), (3, 1)):
                a = d0 + _dt.timedelta(days=lead)
                b = a + _dt.timedelta(days=length)
                day = [[[0, 10, 0, 0], 3], [[8, 0, 0, 0], 5], [[20, 30, 0, 0], None]]
                for dtype in ("Real", "Unsigned"):
                    sched = dict(effective=[[a.year - 1900, a.month, a.day], [b.year - 1900, b.month, b.day]], weekly=[list(day) for _ in range(7)], exceptions=[], calendars=[[]],
                                 default=1, dtype=dtype, shape="both")
                    ctx.check(dict(k="timer", sched=sched, start=[d0.year - 1900, d0.month, d0.day], days=lead + length + 3))
        # the same in a zone that observes daylight-saving time: summer, winter, and across both clock changes
        zone = "EST5EDT,M3.2.0,M11.1.0"
        dst_starts = [[121, 7, 3], [121, 1, 9], [121, 3, 11], [121, 11, 4], [124, 6, 28]]
        strat = st.tuples(ss, st.sampled_from(dst_starts), st.integers(3, 6)).map(lambda t: dict(k="timer", sched=t[0], start=t[1], days=t[2], tz=zone))
        ctx.for_all(strat, max(4, spec["n"] // 2), salt=77)
