"""C06 -- routers deliver each packet once to exactly the addressed stations."""
from ..runner import Verdict, watchdog, Stall
from .. import clock as VC
from .. import boot
from ..ref import npci as RN, apci as RA

ID = "C06"
LEVEL = "exploration"
RULE = ("RouteLab: real NetworkServiceAccessPoint + NetworkServiceElement stations (a recording client sits directly above the network "
        "layer) and routers with 2..4 ports on several virtual LANs under virtual time. Hypothesis draws loop-free internetworks as "
        "bipartite trees: 2..8 networks (numbers incl. 1, 65534 and random), routers of 2..4 ports, 1..3 stations per network, each "
        "station knowing its own network number or not. For a topology, messages are drawn from the cross product source station x "
        "{unicast same net, unicast remote, remote broadcast to each net, global broadcast, local broadcast}; each is sent cold "
        "(routers and stations know nothing: path discovery needed) and again warm; bursts of several messages to one undiscovered "
        "network in the same instant are included. Oracle from the GRAPH, not from routing code: the multiset of (station, token) "
        "handed above the network layer must equal the expected recipients exactly (nobody else, nobody twice); the source address "
        "shown must name the originator's network and MAC (the local address on the same network) and a unicast reply sent to "
        "exactly that address must reach the originator once and nobody else; every LAN frame is decoded by an independent NPCI "
        "codec: a frame carrying the token on a network at router-distance d from the source has hop count 255 - d, and it is only "
        "ever emitted there by the originator or by the one router on the path from the source (nothing is sent back onto the "
        "network it came from). Frames injected with hop count 0, 1, 2 must die out after that many hops. Rings of 3..4 networks: "
        "a global broadcast must reach quiescence within 2*255*(#routers) forwarded frames. Non-trivial: message crossing >= 1 "
        "router. Distinct by (topology, message list)."
        " Also: steps of 2-4 messages from different stations in the same instant (crossing traffic)."
        " Station addresses reused across networks; one router that also hosts a device."
        " Routers announcing Network-Number-Is between messages. One reduced copy of a generated shard runs with the library's debug tracing switched on (label tracing-on).")
ASSUMPTIONS = [
    "network numbers are unique and MACs unique per LAN; a station that does not know its own network number never addresses its own network as a remote one",
    "in cyclic topologies exactly-once delivery is not asserted, only termination",
    "remote-addressed traffic in cyclic topologies needs path discovery, whose I-Am-Router-To-Network re-broadcast is judged as part of termination",
]

_lib = None


class _L(object):
    pass


def lib():
    global _lib
    if _lib is None:
        L = _L()
        VC.install(0.0)
        from bacpypes import vlan, netservice as NS
        from bacpypes.comm import Client, bind
        from bacpypes.pdu import Address, LocalBroadcast, LocalStation, RemoteStation, RemoteBroadcast, GlobalBroadcast, PDU
        from bacpypes.apdu import UnconfirmedRequestPDU
        L.vlan, L.NS, L.Client, L.bind = vlan, NS, Client, bind
        L.Address, L.LocalBroadcast, L.LocalStation, L.RemoteStation, L.RemoteBroadcast, L.GlobalBroadcast, L.PDU = Address, LocalBroadcast, LocalStation, RemoteStation, RemoteBroadcast, GlobalBroadcast, PDU
        L.UReq = UnconfirmedRequestPDU

        class NSE(NS.NetworkServiceElement):
            _startup_disabled = True
        L.NSE = NSE

        class LoggedNetwork(vlan.Network):
            def __init__(self, lab, netno):
                vlan.Network.__init__(self, name="net%d" % netno, broadcast_address=LocalBroadcast())
                self.lab = lab
                self.netno = netno

            def process_pdu(self, pdu):
                self.lab.frames.append(dict(net=self.netno, src=pdu.pduSource.addrAddr[0] if pdu.pduSource is not None and pdu.pduSource.addrAddr else None,
                                            dst=None if pdu.pduDestination is None or pdu.pduDestination.addrType == Address.localBroadcastAddr else pdu.pduDestination.addrAddr[0],
                                            data=bytes(pdu.pduData), t=VC.clk.now))
                if len(self.lab.frames) > self.lab.max_frames:
                    raise Overrun()
                vlan.Network.process_pdu(self, pdu)
        L.LoggedNetwork = LoggedNetwork

        class Upper(Client):
            def __init__(self, sid):
                Client.__init__(self)
                self.sid = sid
                self.got = []

            def confirmation(self, apdu):
                self.got.append((bytes(apdu.pduData), apdu.pduSource, apdu.pduDestination))
        L.Upper = Upper
        _lib = L
    return _lib


class Overrun(BaseException):
    pass


class RouteLab(object):
    """topo: dict(nets=[netno...], routers=[[net index...]...], stations=[[net index, mac, aware]...])"""

    def __init__(self, topo, max_frames=6000):
        L = lib()
        VC.reset(0.0)
        boot.swallowed.take()
        self.topo = topo
        self.frames = []
        self.max_frames = max_frames
        self.nets = [L.LoggedNetwork(self, n) for n in topo["nets"]]
        self.stations = []
        for i, st_ in enumerate(topo["stations"]):
            ni, mac, aware = st_[0], st_[1], st_[2]
            if len(st_) > 3:
                self.stations.append(None)         # the application of router st_[4]: filled in when that router is built
                continue
            nsap = L.NS.NetworkServiceAccessPoint()
            nse = L.NSE()
            L.bind(nse, nsap)
            up = L.Upper(i)
            L.bind(up, nsap)
            node = L.vlan.Node(L.Address(mac), self.nets[ni])
            nsap.bind(node, topo["nets"][ni] if aware else None, L.Address(mac))
            self.stations.append(dict(nsap=nsap, up=up, node=node, net=ni, mac=mac, aware=aware))
        self.routers = []
        for ri, ports in enumerate(topo["routers"]):
            nsap = L.NS.NetworkServiceAccessPoint()
            nse = L.NSE()
            L.bind(nse, nsap)
            macs = {}
            for ni in ports:
                # station addresses are unique per network only: with "overlap" a router is numbered right after the stations of each of its
                # networks, so its address on one network is some station's (or another router's) address on another
                if topo.get("overlap"):
                    mac = 1 + len([1 for s_ in topo["stations"] if s_[0] == ni and len(s_) == 3]) + len([1 for r_ in self.routers if ni in r_["ports"]])
                else:
                    mac = 200 + ri
                node = L.vlan.Node(L.Address(mac), self.nets[ni])
                nsap.bind(node, topo["nets"][ni], L.Address(mac))
                macs[ni] = mac
            self.routers.append(dict(nsap=nsap, ports=list(ports), mac=200 + ri, macs=macs, nse=nse))
            for i, st_ in enumerate(topo["stations"]):
                if len(st_) > 3 and st_[4] == ri:
                    # a router that also hosts a device: an application on top of its network layer, at home on its last-bound network
                    up = L.Upper(i)
                    L.bind(up, nsap)
                    assert st_[0] == ports[-1] and st_[1] == macs[ports[-1]], (st_, ports, macs)
                    self.stations[i] = dict(nsap=nsap, up=up, node=None, net=st_[0], mac=st_[1], aware=True)
        # graph: distance in routers between networks, and the router MAC that feeds each network from a given source network
        self.adj = dict((i, []) for i in range(len(self.nets)))
        for ri, ports in enumerate(topo["routers"]):
            for a in ports:
                for b in ports:
                    if a != b:
                        self.adj[a].append((b, ri))

    def paths_from(self, src):
        """net index -> (distance, feeding router index) by BFS"""
        dist = {src: (0, None)}
        q = [src]
        while q:
            a = q.pop(0)
            for b, ri in self.adj[a]:
                if b not in dist:
                    dist[b] = (dist[a][0] + 1, ri)
                    q.append(b)
        return dist

    def send(self, si, dest, token):
        L = lib()
        pdu = L.UReq(200)
        pdu.pduData = bytearray(token)
        pdu.pduDestination = dest
        self.stations[si]["up"].request(pdu)

    def run(self):
        try:
            VC.pump(VC.clk.now + 120.0, max_iter=400000, stay=True)
            return True
        except Overrun:
            return False


def address_of(L, lab, kind, si, target):
    """destination address for a message of `kind` from station si"""
    topo = lab.topo
    if kind == "local":
        return L.LocalBroadcast()
    if kind == "global":
        return L.GlobalBroadcast()
    if kind == "unicast":
        ti = target % len(topo["stations"])
        tnet, tmac = topo["stations"][ti][0], topo["stations"][ti][1]
        snet = topo["stations"][si][0]
        if tnet == snet:
            return L.LocalStation(tmac)
        return L.RemoteStation(topo["nets"][tnet], tmac)
    if kind == "rbcast":
        tnet = target % len(topo["nets"])
        return L.RemoteBroadcast(topo["nets"][tnet])
    raise ValueError(kind)


def expected_recipients(lab, kind, si, target):
    topo = lab.topo
    snet = topo["stations"][si][0]
    if kind == "local":
        return [j for j, s in enumerate(topo["stations"]) if s[0] == snet and j != si]
    if kind == "global":
        return [j for j in range(len(topo["stations"])) if j != si]
    if kind == "unicast":
        ti = target % len(topo["stations"])
        return [ti] if ti != si else []
    if kind == "rbcast":
        tnet = target % len(topo["nets"])
        return [j for j, s in enumerate(topo["stations"]) if s[0] == tnet and j != si]


def run_tree(topo, msgs):
    """msgs: list of steps; a step is a list of [si, kind, target] sent in the same instant (usually one)."""
    L = lib()
    lab = RouteLab(topo)
    fails = []
    stats = dict(crossing=0, two_hops=0, cold=0, unaware=0, bursts=0)
    tok_n = [0]
    discovered = set()
    for step in msgs:
        batch = []
        if step and step[0][1] == "nni":
            # the routers announce the numbers of their networks: stations that did not know theirs learn it (and keep what they had learned before)
            for r_ in lab.routers:
                r_["nse"].network_number_is()
            if not lab.run():
                return [("runaway-traffic:tree", "Network-Number-Is")], stats
            stats["nni"] = stats.get("nni", 0) + 1
            continue
        for si, kind, target in step:
            si = si % len(topo["stations"])
            snet = topo["stations"][si][0]
            aware = topo["stations"][si][2]
            if kind == "rbcast" and (target % len(topo["nets"])) == snet and not aware:
                continue                    # a station that does not know its network cannot know this is its own
            if kind == "unicast" and (target % len(topo["stations"])) == si:
                continue
            if len(topo["stations"][si]) > 3:
                continue                    # the device hosted by a router only receives here (what it originates leaves from several networks at once)
            tok_n[0] += 1
            token = b"K%04d" % tok_n[0]
            batch.append((si, kind, target, token))
        if not batch:
            continue
        if len(batch) > 1:
            stats["bursts"] += 1
        mark = len(lab.frames)
        got_before = [len(s["up"].got) for s in lab.stations]
        for si, kind, target, token in batch:
            try:
                lab.send(si, address_of(L, lab, kind, si, target), token)
            except Exception as err:
                return [("send-raised:%s:%s" % (kind, type(err).__name__), "sending %r from station %d raised %r (topology %r)" % ((kind, target), si, err, topo))], stats
        if not lab.run():
            return [("runaway-traffic:tree", "more than %d frames in a loop-free topology %r after %r" % (lab.max_frames, topo, batch))], stats
        sw = [r for r in boot.swallowed.take() if r[0]]
        for si, kind, target, token in batch:
            snet = topo["stations"][si][0]
            want = sorted(expected_recipients(lab, kind, si, target))
            got = sorted(j for j, s in enumerate(lab.stations) for (data, src, dst) in s["up"].got[got_before[j]:] if data == token)
            paths = lab.paths_from(snet)
            far = max([paths[topo["stations"][j][0]][0] for j in want] or [0])
            if far >= 1:
                stats["crossing"] += 1
            if far >= 2:
                stats["two_hops"] += 1
            key = (si, kind, target % 64)
            cold = key not in discovered
            discovered.add(key)
            if cold:
                stats["cold"] += 1
            desc = "station %d (net %d, mac %d, %s) -> %s %r; topology %r" % (si, topo["nets"][snet], topo["stations"][si][1], "aware" if topo["stations"][si][2] else "unaware", kind, target, topo)
            exc = ":%s@%s" % (sw[0][0], sw[0][1]) if sw else ""
            if got != want:
                from collections import Counter
                cg, cw = Counter(got), Counter(want)
                if cg - cw:
                    extra = sorted((cg - cw).elements())
                    kindx = "delivered-twice" if any(cw[j] for j in extra) else "delivered-to-wrong-station"
                else:
                    kindx = "not-delivered"
                fails.append(("%s:%s:%s%s%s" % (kindx, kind, "cold" if cold else "warm", "-burst" if len(batch) > 1 else "", exc),
                              "%s: delivered to stations %r, the graph says %r" % (desc, got, want)))
                continue
            # source address shown to the recipients, and the way back
            for j in want:
                s = lab.stations[j]
                rec = [(data, src, dst) for (data, src, dst) in s["up"].got[got_before[j]:] if data == token][0]
                src = rec[1]
                same = topo["stations"][j][0] == snet
                ok = (src.addrType == L.Address.localStationAddr and src.addrAddr == bytes([topo["stations"][si][1]])) if same else \
                     (src.addrType == L.Address.remoteStationAddr and src.addrNet == topo["nets"][snet] and src.addrAddr == bytes([topo["stations"][si][1]]))
                if not ok and len(topo["stations"][si]) > 3:
                    # the device hosted by a router is at home on every network the router is attached to: any of its (network, address) pairs names it
                    r_ = lab.routers[topo["stations"][si][4]]
                    rnet = topo["stations"][j][0]
                    ok = any((src.addrType == L.Address.localStationAddr and p_ == rnet and src.addrAddr == bytes([m_])) or
                             (src.addrType == L.Address.remoteStationAddr and src.addrNet == topo["nets"][p_] and src.addrAddr == bytes([m_])) for p_, m_ in r_["macs"].items())
                if not ok:
                    fails.append(("wrong-source-address:%s" % kind, "%s: recipient %d was shown source %s" % (desc, j, src)))
                    break
            # wire discipline for this token
            for f in lab.frames[mark:]:
                try:
                    n = RN.decode(f["data"])
                except RN.Reject:
                    continue
                if n["msg"] is not None or token not in n["data"]:
                    continue
                ni = topo["nets"].index(f["net"])
                d, feeder = paths[ni]
                allowed_src = topo["stations"][si][1] if d == 0 else lab.routers[feeder]["macs"][ni]
                if f["src"] != allowed_src:
                    fails.append(("sent-back-or-sideways:%s" % kind, "%s: the packet appears on net %d sent by MAC %r; only MAC %r lies on the path from the source" % (desc, f["net"], f["src"], allowed_src)))
                    break
                if n["hop"] is not None and n["hop"] != 255 - d:
                    fails.append(("hop-count:%s" % kind, "%s: on net %d (%d router hops from the source) the hop count is %d, expected %d" % (desc, f["net"], d, n["hop"], 255 - d)))
                    break
        if fails:
            break
        # replies: each recipient of a unicast answers to the address it was shown
        for si, kind, target, token in batch:
            if kind != "unicast":
                continue
            want = expected_recipients(lab, kind, si, target)
            for j in want:
                s = lab.stations[j]
                recs = [(data, src, dst) for (data, src, dst) in s["up"].got[got_before[j]:] if data == token]
                if not recs or len(topo["stations"][j]) > 3:
                    continue
                tok_n[0] += 1
                rtoken = b"R%04d" % tok_n[0]
                before = [len(x["up"].got) for x in lab.stations]
                try:
                    lab.send(j, recs[0][1], rtoken)
                except Exception as err:
                    fails.append(("reply-raised:%s" % type(err).__name__, "replying to %s raised %r" % (recs[0][1], err)))
                    break
                if not lab.run():
                    fails.append(("runaway-traffic:tree", "reply"))
                    break
                got = sorted(k for k, x in enumerate(lab.stations) for (data, src, dst) in x["up"].got[before[k]:] if data == rtoken)
                if got != [si]:
                    fails.append(("reply-not-routable", "a reply sent by station %d to the source address it was shown (%s) reached stations %r instead of [%d]; topology %r" % (j, recs[0][1], got, si, topo)))
                    break
        if fails:
            break
    if any(not s[2] for s in topo["stations"]):
        stats["unaware"] = 1
    return fails[:2], stats


def run_hops(nrouters, hop):
    """a chain of nrouters+1 networks; a frame injected with hop count `hop` toward the far end"""
    L = lib()
    topo = dict(nets=[10 + i for i in range(nrouters + 1)], routers=[[i, i + 1] for i in range(nrouters)],
                stations=[[0, 1, True], [nrouters, 2, True]])
    lab = RouteLab(topo)
    # warm the caches with a normal packet first
    lab.send(0, L.RemoteStation(topo["nets"][-1], 2), b"WARM")
    lab.run()
    mark = len(lab.frames)
    frame = RN.encode(dict(msg=None, dadr=("rs", topo["nets"][-1], b"\x02"), sadr=None, er=False, prio=0, hop=hop, data=b"\x10\xc8HOPS"))
    raw = L.vlan.Node(L.Address(77), lab.nets[0], spoofing=True)
    from bacpypes.comm import Client

    class Raw(Client):
        def confirmation(self, pdu):
            pass
    rc = Raw()
    L.bind(rc, raw)
    rc.request(L.PDU(frame, source=L.Address(77), destination=L.Address(200)))
    lab.run()
    seen = sorted(set(topo["nets"].index(f["net"]) for f in lab.frames[mark:] if b"HOPS" in f["data"]))
    # the frame may travel at most `hop` router hops: it may appear on nets 0..hop
    fails = []
    if seen and max(seen) > hop:
        fails.append(("forwarded-with-exhausted-hop-count", "a frame injected with hop count %d was still forwarded onto network index %d (chain of %d routers)" % (hop, max(seen), nrouters)))
    delivered = [1 for (data, src, dst) in lab.stations[1]["up"].got if data == b"HOPS"]
    if hop >= nrouters and len(delivered) != 1:
        fails.append(("hop-count-sufficient-but-not-delivered", "hop count %d, %d routers: delivered %d times" % (hop, nrouters, len(delivered))))
    return fails


def run_ring(n, kind):
    """n networks joined in a ring by n two-port routers"""
    L = lib()
    topo = dict(nets=[20 + i for i in range(n)], routers=[[i, (i + 1) % n] for i in range(n)], stations=[[i, 1, True] for i in range(n)])
    lab = RouteLab(topo, max_frames=2 * 255 * n + 200)
    try:
        if kind == "global":
            lab.send(0, L.GlobalBroadcast(), b"RING")
        elif kind == "rbcast":
            lab.send(0, L.RemoteBroadcast(topo["nets"][n // 2]), b"RING")
        else:
            lab.send(0, L.RemoteStation(topo["nets"][n // 2], 1), b"RING")
        ok = lab.run()
    except Exception as err:
        return [("ring:raised:%s" % type(err).__name__, repr(err))]
    if not ok:
        which = "discovery" if any(RN.decode(f["data"])["msg"] in (0, 1) for f in lab.frames[-50:]) else "data"
        return [("ring:no-termination:%s:%s" % (kind, which), "ring of %d networks: more than %d frames after one %s message, the last ones being %s frames" % (n, lab.max_frames, kind, which))]
    return []


def judge(case):
    k = case["k"]
    try:
        with watchdog(180):
            if k == "tree":
                fails, stats = run_tree(case["topo"], case["msgs"])
                labels = [x for x in ("crossing", "two_hops", "cold", "unaware", "bursts") if stats.get(x)]
                if any(f[0].startswith("runaway-traffic") for f in fails):
                    labels.append("stall")          # every further case would cost thousands of frames again: the shard stops after two
                return Verdict(fails, stats["crossing"] > 0, labels or ["local-only"])
            if k == "hops":
                return Verdict(run_hops(case["n"], case["hop"]), True, ("hops",))
            if k == "ring":
                return Verdict(run_ring(case["n"], case["kind"]), True, ("ring",))
    except Stall:
        return Verdict([("stall", "no return within 180 s")], True, ("stall",))
    raise ValueError(k)


# ---- generation -------------------------------------------------------------------------------------------------------------------

def topo_strategy():
    from hypothesis import strategies as st

    def build(t):
        nnets, netnos, fanouts, attach, stations = t
        nets = []
        for x in netnos:
            if x not in nets:
                nets.append(x)
            if len(nets) == nnets:
                break
        k = len(nets)
        routers = []
        used = 1
        ri = 0
        while used < k:
            up = attach[ri % len(attach)] % used
            fan = min(fanouts[ri % len(fanouts)], k - used)
            routers.append([up] + list(range(used, used + fan)))
            used += fan
            ri += 1
        sts = []
        for ni in range(k):
            cnt, awareness = stations[ni % len(stations)]
            for j in range(cnt):
                sts.append([ni, 1 + j, bool((awareness >> j) & 1)])
        overlap = bool(fanouts[0] % 2 == 1 or len(attach) % 2 == 0)
        if attach[0] % 2 == 0 and routers:
            # one router also hosts a device (an application bound on top of its network layer)
            ri_ = attach[-1] % len(routers)
            ni_ = routers[ri_][-1]
            if overlap:
                mac_ = 1 + len([1 for s_ in sts if s_[0] == ni_]) + len([1 for r_ in routers[:ri_] if ni_ in r_])
            else:
                mac_ = 200 + ri_
            sts.append([ni_, mac_, True, "router", ri_])
        return dict(nets=nets, routers=routers, stations=sts, overlap=overlap)
    netno = st.one_of(st.sampled_from([1, 2, 3, 65534, 100, 255, 256]), st.integers(1, 65534))
    return st.tuples(st.integers(2, 8), st.lists(netno, min_size=12, max_size=12, unique=True), st.lists(st.integers(1, 3), min_size=1, max_size=4),
                     st.lists(st.integers(0, 7), min_size=1, max_size=4), st.lists(st.tuples(st.integers(1, 3), st.integers(0, 7)), min_size=1, max_size=4)).map(build)


def msgs_strategy():
    from hypothesis import strategies as st
    m = st.tuples(st.integers(0, 30), st.sampled_from(["unicast", "unicast", "rbcast", "rbcast", "global", "local"]), st.integers(0, 30)).map(list)
    single = m.map(lambda x: [x])
    burst = st.tuples(st.integers(0, 30), st.integers(0, 30), st.lists(st.sampled_from(["unicast", "rbcast"]), min_size=2, max_size=4)).map(
        lambda t: [[t[0], kind, t[1]] for kind in t[2]])
    # each message is sent twice: cold, then warm
    # crossing traffic: messages from different stations in the same instant (path discovery of one interleaves with traffic of the other)
    cross = st.lists(m, min_size=2, max_size=4)
    nni = st.just([[0, "nni", 0]])
    return st.lists(st.one_of(single, single, single, burst, cross, cross, nni), min_size=1, max_size=6).map(lambda l: [s for step in l for s in (step, step)])


def plan(tier, seed):
    specs = [dict(name="trees-%d" % i, kind="trees", n=350 if tier == "quick" else 10000) for i in range(16)]
    specs.append(dict(name="hops", kind="hops"))
    specs.append(dict(name="rings", kind="rings"))
    specs.append(dict(name="all-messages", kind="allmsgs", tier=tier))
    # once more with the library's debug tracing switched on
    specs.append(dict(name="tracing-trees", kind="trees", n=60 if tier == "quick" else 1500, tracing=True))
    return specs


def run(spec, ctx):
    kind = spec["kind"]
    if kind == "trees":
        from hypothesis import strategies as st
        strat = st.tuples(topo_strategy(), msgs_strategy()).map(lambda t: dict(k="tree", topo=t[0], msgs=t[1]))
        ctx.for_all(strat, spec["n"])
    elif kind == "hops":
        for n in (1, 2, 3, 4):
            for hop in (0, 1, 2, 3, 5, 255):
                ctx.check(dict(k="hops", n=n, hop=hop))
        ctx.mark_exhaustive("chains of 1..4 routers x injected hop counts {0,1,2,3,5,255}")
    elif kind == "rings":
        for n in (3, 4):
            for k in ("global", "rbcast", "unicast"):
                ctx.check(dict(k="ring", n=n, kind=k))
        ctx.mark_exhaustive("rings of 3 and 4 networks x {global, remote broadcast, remote unicast}")
    elif kind == "allmsgs":
        # fixed topologies, the full cross product of (source, kind, destination), cold and warm
        topos = [dict(nets=[1, 2, 3, 4], routers=[[0, 1, 2], [2, 3]], stations=[[0, 1, True], [0, 2, False], [1, 1, True], [2, 1, False], [3, 1, True], [3, 2, True]]),
                 dict(nets=[10, 20, 30, 40, 50], routers=[[0, 1], [1, 2], [2, 3], [3, 4]], stations=[[0, 1, True], [2, 1, True], [4, 1, False]]),
                 dict(nets=[5, 65534, 7], routers=[[0, 1, 2]], stations=[[0, 1, False], [1, 1, False], [2, 1, False], [2, 2, True]])]
        for topo in topos:
            ns, nn = len(topo["stations"]), len(topo["nets"])
            for si in range(ns):
                msgs = []
                for ti in range(ns):
                    msgs.append([[si, "unicast", ti]])
                for ni in range(nn):
                    msgs.append([[si, "rbcast", ni]])
                msgs += [[[si, "global", 0]], [[si, "local", 0]]]
                ctx.check(dict(k="tree", topo=topo, msgs=[m for step in msgs for m in (step, step)]))
        ctx.mark_exhaustive("every (source, kind, destination) on three fixed topologies, cold and warm")
