"""C01 -- primitive values survive encoding unchanged and are never silently altered."""
import math, struct, importlib
from ..runner import Verdict
from ..ref import asn1 as R

ID = "C01"
LEVEL = "exploration"
RULE = ("Every concrete Atomic subclass found by walking __subclasses__ (primitivedata, basetypes, apdu, object). Values per base "
        "type: Unsigned/Integer at every 8-bit length boundary +-1 (both signs) clipped to the subclass limits, random in range "
        "and unrepresentable magnitudes (>= 2^32, beyond limits); Real/Double from random IEEE bit patterns (incl. +-0, "
        "subnormals, inf, NaN) and arbitrary Python doubles; OctetString lengths 0..300 + {65535,65536,70000}; CharacterString "
        "st.text() across the 253/254 length escape; BitString EVERY length 0..64 with random bits, named subclasses by name "
        "lists; Enumerated EVERY name and number of every subclass, boundary numbers, unknown numbers, >= 2^32; Date/Time 4-octet "
        "tuples over boundary+special values; ObjectIdentifier boundary words (type 0,1,63,127,128,1022,1023 x instance "
        "0,1,2^22-2,2^22-1), random 32-bit words, numeric and named tuples. Both tagging modes; ALL context numbers 0..254 for one "
        "value per class, random pairing otherwise. Oracle: octets through value.encode(Tag)[.app_to_context(n)]->Tag.encode == "
        "independent clause-20.2 reference encoder; decoding them back through Tag(PDUData)[.context_to_app] -> class(tag) gives "
        "an equal value (ints/bytes/str/bits/tuples exact, enumerations by number and by name, floats by bit pattern, Real from a "
        "double == IEEE round-to-nearest float32); the reference decoder reads the octets back to the same value; an "
        "unrepresentable input must raise or round-trip exactly. Non-trivial: value != class default and (content > 1 octet or "
        "boundary-table value or context number >= 15). Distinct by (class, mode, ctx, octets)."
        " Also: every decoded value is handed on through the copy constructor and must encode to the same octets; every character string is also received in UCS-4, UCS-2 and ISO 8859-1, copied and encoded again; codec-sensitive text (byte-order marks, NUL, line ends, surrounding blanks, combining sequences)."
        " Vendor-extended enumerations, object identifier and bit string classes defined by the harness."
        " Engineering units with a lazily expanded two-level vendor table; bit strings filled by index with truthy values. One reduced copy of a generated shard runs with the library's debug tracing switched on (label tracing-on).")
ASSUMPTIONS = [
    "bpverif/ref/asn1.py transcribes clause 20.2.2-20.2.14 correctly",
    "Date(year=2155) (alias of the wildcard) and ObjectIdentifier(int >= 2^32) (masked) are outside 'values the type accepts' and are not generated",
    "decoding of foreign octets (range checks on decode) belongs to C02/C10, not C01",
    "a named bit string built from an EMPTY name list is ambiguous (the constructor reads [] as the empty bit string) and is not generated",
]

KIND = dict(Null=R.NULL, Boolean=R.BOOLEAN, Unsigned=R.UNSIGNED, Integer=R.INTEGER, Real=R.REAL, Double=R.DOUBLE,
            OctetString=R.OCTETS, CharacterString=R.CHARS, BitString=R.BITS, Enumerated=R.ENUM, Date=R.DATE, Time=R.TIME,
            ObjectIdentifier=R.OID)
REFUSALS = (ValueError, TypeError, OverflowError, struct.error, IndexError, KeyError)

_lib = None


class _L(object):
    pass


# characters and shapes that text codecs, normalisers and "tidy-up" calls treat specially: byte-order marks, NUL, line ends,
# surrounding white space, combining sequences (NFC vs NFD), case pairs without round trip, the last code points
TEXT_ATOMS = ["\ufeff", "\ufffe", "\uffff", "\x00", "\n", "\r\n", "\t", " ", "\x7f", "\x80", "\xff", "\u0100", "e\u0301", "\u00e9", "\u212b", "\u00c5",
              "\u00df", "\u0130", "\u2028", "\U0010ffff", "\U00010000", "a", "A", "%", "\\", "\"", "'"]
TEXT_SPECIAL = ["\ufeff", "\ufeffabc", "abc\ufeff", "a\ufeffb", "\ufeff\ufeff", "\ufffe", " a", "a ", " a ", "\ta\n", "a\r\n", "\n", "a\x00", "\x00a", "a\x00b",
                "e\u0301", "\u00e9", "\u212b", "\u00df", "\u0130", "i\u0307", "\U0010ffff", "\uffff", "\x7f\x80\xff", "ABC", "abc", "\\x41", "%41"]

def lib():
    global _lib
    if _lib is None:
        L = _L()
        from bacpypes import primitivedata as P, basetypes, apdu, object as O, constructeddata  # noqa
        from bacpypes.comm import PDUData
        L.P, L.PDUData = P, PDUData

        # what a vendor's application adds: an object type enumeration extended into the vendor range and the identifier class that uses it,
        # a vendor-extended property enumeration, a bit string with its own names
        class VendorObjectType(P.ObjectType):
            enumerations = dict(vendorChiller=128, vendorBoiler=500, vendorLast=1023)
        P.expand_enumerations(VendorObjectType)

        class VendorObjectIdentifier(P.ObjectIdentifier):
            objectTypeClass = VendorObjectType

        class VendorPropertyIdentifier(basetypes.PropertyIdentifier):
            enumerations = dict(vendorGain=512, vendorTrim=4194303)
        P.expand_enumerations(VendorPropertyIdentifier)

        # a two-level enumeration that relies on the lazy table expansion (no explicit call), its parent having been used first
        basetypes.EngineeringUnits("degreesCelsius")

        class VendorUnits(basetypes.EngineeringUnits):
            enumerations = dict(vendorFurlongsPerFortnight=60000, vendorSmoots=300)

        class VendorFlags(P.BitString):
            bitNames = dict(fan=0, pump=1, valve=5, alarm=12)
            bitLen = 13
        L.harness_classes = (VendorObjectType, VendorObjectIdentifier, VendorPropertyIdentifier, VendorFlags)
        acc = []

        def walk(c):
            for s in c.__subclasses__():
                if s not in acc:
                    acc.append(s)
                    walk(s)
        walk(P.Atomic)
        L.classes = {}
        for c in acc:
            base = None
            for bname in KIND:
                if issubclass(c, getattr(P, bname)):
                    base = bname
            if base is None:
                continue                       # AnyAtomic: a wrapper, no encoding of its own
            L.classes["%s:%s" % (c.__module__, c.__name__)] = (c, base)
        _lib = L
    return _lib


def class_names():
    return sorted(lib().classes)


def enum_table(klass):
    """name -> number and number -> set(names), read from the class hierarchy's `enumerations` dicts"""
    by_name, by_num = {}, {}
    for c in klass.__mro__:
        for n, v in (c.__dict__.get("enumerations") or {}).items():
            if n not in by_name:
                by_name[n] = v
    for n, v in by_name.items():
        by_num.setdefault(v, set()).add(n)
    return by_name, by_num


def pat(n, salt):
    unit = bytes((i * 29 + salt) & 0xFF for i in range(256))
    return (unit * (n // 256 + 1))[:n]


def to_arg(L, klass, base, v):
    """JSON value -> (constructor argument(s), reference value, representable?)"""
    P = L.P
    if base == "Null":
        return ((),), (), True
    if base == "Boolean":
        return (bool(v),), bool(v), True
    if base == "Unsigned":
        lo = klass._low_limit
        hi = klass._high_limit if klass._high_limit is not None else 0xFFFFFFFF
        return (v,), v, lo <= v <= min(hi, 0xFFFFFFFF)
    if base == "Integer":
        return (v,), v, -(1 << 31) <= v <= (1 << 31) - 1
    if base == "Real":
        if "f32" in v:
            x = struct.unpack(">f", bytes.fromhex(v["f32"]))[0]
            return (x,), x, True
        x = struct.unpack(">d", bytes.fromhex(v["d"]))[0]
        try:
            r = struct.unpack(">f", struct.pack(">f", x))[0]     # IEEE round-to-nearest float32
            return (x,), r, True
        except OverflowError:
            return (x,), None, False
    if base == "Double":
        x = struct.unpack(">d", bytes.fromhex(v["d"]))[0]
        return (x,), x, True
    if base == "OctetString":
        d = bytes.fromhex(v["hex"]) if "hex" in v else pat(*v["pat"])
        return (d,), d, True
    if base == "CharacterString":
        return (v["s"],), v["s"], True
    if base == "BitString":
        if "bits" in v:
            return (list(v["bits"]),), list(v["bits"]), True
        bits = [0] * klass.bitLen
        for n in v["names"]:
            bits[klass.bitNames[n]] = 1
        return (list(v["names"]),), bits, True
    if base == "Enumerated":
        by_name, by_num = enum_table(klass)
        if isinstance(v, dict):
            return (v["name"],), by_name[v["name"]], True
        return (v,), v, 0 <= v <= 0xFFFFFFFF
    if base in ("Date", "Time"):
        return (tuple(v),), tuple(v), True
    if base == "ObjectIdentifier":
        if "word" in v:
            w = v["word"]
            return (w,), (w >> 22, w & 0x3FFFFF), True
        t = v["t"]
        tnum = t
        if isinstance(t, str):
            tnum = enum_table(klass.objectTypeClass)[0][t]
        ok = 0 <= tnum <= 1023 and 0 <= v["i"] <= 0x3FFFFF
        return ((t, v["i"]),), (tnum, v["i"]), ok
    raise ValueError(base)


def value_view(L, klass, base, obj):
    """what the decoded object holds, in reference terms"""
    if base == "Enumerated":
        return obj.get_long()
    if base == "ObjectIdentifier":
        return tuple(obj.get_tuple())
    if base == "BitString":
        return list(obj.value)
    if base in ("Date", "Time"):
        return tuple(obj.value)
    if base == "OctetString":
        return bytes(obj.value)
    return obj.value


def same(base, a, b):
    if base in ("Real", "Double"):
        if isinstance(a, float) and isinstance(b, float):
            if math.isnan(a) or math.isnan(b):
                return math.isnan(a) and math.isnan(b)
            return struct.pack(">d", a) == struct.pack(">d", b)
        return False
    if base == "Boolean":
        return isinstance(a, bool) and a == b
    return a == b and type(a) == type(b) or (a == b and base in ("Unsigned", "Integer", "Enumerated"))


def check_prim(cname, v, ctx):
    L = lib()
    P = L.P
    klass, base = L.classes[cname]
    kind = KIND[base]
    short = cname.split(":")[1]
    mode = "app" if ctx is None else "ctx"
    args, refv, representable = to_arg(L, klass, base, v)
    # 1. construct + encode through the library
    try:
        obj = klass(*args)
        tag = P.Tag()
        obj.encode(tag)
        if ctx is not None:
            tag = tag.app_to_context(ctx)
        pdu = L.PDUData()
        tag.encode(pdu)
        octets = bytes(pdu.pduData)
    except REFUSALS as err:
        if representable:
            return [("prim:%s:%s:refused-valid:%s" % (base, mode, type(err).__name__), "%s(%r) ctx=%r refused: %r" % (short, _s(v), ctx, err))], None
        return [], None                          # refusing an unrepresentable value is what the statement asks for
    except Exception as err:
        return [("prim:%s:%s:encode-raised:%s" % (base, mode, type(err).__name__), "%s(%r) ctx=%r raised %r" % (short, _s(v), ctx, err))], None
    fails = []
    # 2. canonical octets
    if representable:
        want = R.encode_primitive(kind, refv, ctx)
        if octets != want:
            fails.append(("prim:%s:%s:not-canonical" % (base, mode), "%s(%r) ctx=%r: library %s, clause 20.2 %s"
                          % (short, _s(v), ctx, octets[:24].hex(), want[:24].hex())))
            return fails, octets
    # 3. decode through the library
    try:
        t2 = P.Tag(L.PDUData(octets))
        if ctx is not None:
            if t2.tagClass != P.Tag.contextTagClass or t2.tagNumber != ctx:
                fails.append(("prim:%s:ctx:tag-number" % base, "%s ctx=%r came back as class %r number %r" % (short, ctx, t2.tagClass, t2.tagNumber)))
                return fails, octets
            t2 = t2.context_to_app(kind)
        obj2 = klass(t2)
        got = value_view(L, klass, base, obj2)
    except Exception as err:
        if not representable:
            return [], octets                    # octets that do not decode at all are not "a different value"
        return [("prim:%s:%s:decode-raised:%s" % (base, mode, type(err).__name__), "%s(%r) ctx=%r -> %s -> %r" % (short, _s(v), ctx, octets[:24].hex(), err))], octets
    if not representable:
        # emitted octets must not decode to a different value
        if not same(base, got, refv if refv is not None else args[0]):
            fails.append(("prim:%s:%s:silently-altered" % (base, mode), "%s(%r) cannot be represented but encodes to %s which decodes to %r"
                          % (short, _s(v), octets[:24].hex(), _s(got))))
        return fails, octets
    if not same(base, got, refv):
        fails.append(("prim:%s:%s:value-changed" % (base, mode), "%s(%r) ctx=%r -> %s -> %r" % (short, _s(v), ctx, octets[:24].hex(), _s(got))))
    # 3a. a bit string filled bit by bit, from whatever truthy values an application has at hand (a masked flag, a count)
    if base == "BitString" and not fails and isinstance(refv, (list, tuple)) and len(refv) <= 64:
        try:
            o4 = klass([0] * len(refv)) if len(refv) else klass([])
            for i_, b_ in enumerate(refv):
                if b_:
                    o4[i_] = (True, 2, 1, 0x40, 255)[i_ % 5]
            oct4 = _encode_obj(L, o4, ctx)
            if oct4 != octets:
                fails.append(("prim:BitString:%s:bits-assigned-by-index" % mode, "%s %r filled bit by bit with truthy values encodes to %s, the canonical form is %s" % (short, _s(refv), oct4[:24].hex(), octets[:24].hex())))
        except REFUSALS + (IndexError,) as err:
            if len(refv) == len(o4.value if 'o4' in dir() else refv):
                fails.append(("prim:BitString:%s:bits-assigned-by-index:raised:%s" % (mode, type(err).__name__), "%s %r: %r" % (short, _s(refv), err)))
    # 3b. a decoded value handed on through the copy constructor (what every constructed type does with its elements) is the same value
    if not fails:
        fails += copy_check(L, klass, base, kind, short, mode, ctx, obj2, octets, v)
        if base == "CharacterString" and isinstance(refv, str):
            fails += charset_check(L, klass, kind, short, mode, ctx, refv)
    # names survive
    if base == "Enumerated":
        by_name, by_num = enum_table(klass)
        names = by_num.get(refv, set())
        if isinstance(v, dict) and obj2.value != v["name"]:
            fails.append(("prim:Enumerated:%s:name-changed" % mode, "%s(%r) decodes as %r (both map to %d)" % (short, v["name"], obj2.value, refv)))
        elif len(names) == 1 and obj2.value != list(names)[0]:
            fails.append(("prim:Enumerated:%s:name-lost" % mode, "%s(%r) decodes as %r, the number's name is %r" % (short, _s(v), obj2.value, list(names)[0])))
        elif not names and obj2.value != refv:
            fails.append(("prim:Enumerated:%s:number-changed" % mode, "%s(%r) decodes as %r" % (short, _s(v), obj2.value)))
    if base == "ObjectIdentifier":
        by_name, by_num = enum_table(klass.objectTypeClass)
        names = by_num.get(refv[0], set())
        if len(names) == 1 and obj2.value[0] != list(names)[0]:
            fails.append(("prim:ObjectIdentifier:%s:type-name-lost" % mode, "%r decodes as %r" % (_s(v), obj2.value)))
    # 4. the reference decoder reads the same value (guards the reference)
    try:
        rv = R.decode_primitive(kind, octets, ctx)
        if base == "BitString":
            rv = list(rv)
        if not same(base, rv, refv):
            fails.append(("prim:%s:%s:reference-self-check" % (base, mode), "reference decodes %s as %r, expected %r" % (octets[:24].hex(), _s(rv), _s(refv))))
    except R.Reject as rj:
        fails.append(("prim:%s:%s:reference-self-check" % (base, mode), "reference rejects %s: %s" % (octets[:24].hex(), rj)))
    return fails, octets


def _encode_obj(L, obj, ctx):
    tag = L.P.Tag()
    obj.encode(tag)
    if ctx is not None:
        tag = tag.app_to_context(ctx)
    pdu = L.PDUData()
    tag.encode(pdu)
    return bytes(pdu.pduData)


def copy_check(L, klass, base, kind, short, mode, ctx, obj2, octets, v):
    try:
        o3 = _encode_obj(L, klass(obj2), ctx)
    except Exception as err:
        return [("prim:%s:%s:copy-raised:%s" % (base, mode, type(err).__name__), "%s(%r): copying the decoded value raised %r" % (short, _s(v), err))]
    if o3 != octets:
        return [("prim:%s:%s:copy-differs" % (base, mode), "%s(%r): decoded from %s, copied with %s(obj), encodes to %s" % (short, _s(v), octets[:24].hex(), short, o3[:24].hex()))]
    return []


def charset_check(L, klass, kind, short, mode, ctx, text):
    """the same string arriving in the other character sets of clause 20.2.9: decodes to the same text, and a copy re-encodes to the same octets"""
    P = L.P
    fails = []
    for cs, codec in ((3, "utf_32_be"), (4, "utf_16_be"), (5, "latin_1")):
        try:
            raw = text.encode(codec)
        except UnicodeError:
            continue
        if len(raw) > 2000:
            continue
        content = bytes([cs]) + raw
        octets = R.encode_tag((R.APP, R.CHARS, len(content), content)) if ctx is None else R.encode_tag((R.CTX, ctx, len(content), content))
        try:
            t2 = P.Tag(L.PDUData(octets))
            if ctx is not None:
                t2 = t2.context_to_app(kind)
            obj = klass(t2)
            if obj.value != text:
                fails.append(("prim:CharacterString:%s:charset%d:value-changed" % (mode, cs), "%r sent in character set %d (%s) decodes as %r" % (_s(text), cs, octets[:24].hex(), _s(obj.value))))
                continue
            o3 = _encode_obj(L, klass(obj), ctx)
            back = klass(P.Tag(L.PDUData(o3)).context_to_app(kind) if ctx is not None else P.Tag(L.PDUData(o3)))
            if back.value != text:
                fails.append(("prim:CharacterString:%s:charset%d:copy-changes-value" % (mode, cs), "%r received in character set %d, copied and encoded again (%s) decodes as %r"
                              % (_s(text), cs, o3[:24].hex(), _s(back.value))))
        except Exception as err:
            fails.append(("prim:CharacterString:%s:charset%d:raised:%s" % (mode, cs, type(err).__name__), "%r in character set %d (%s) raised %r" % (_s(text), cs, octets[:24].hex(), err)))
    return fails[:1]


def _s(v):
    s = repr(v)
    return s if len(s) < 120 else s[:120] + "..."


def is_default(base, klass, v):
    if base in ("Null",):
        return True
    if base == "Boolean":
        return v is False
    if base in ("Unsigned", "Integer"):
        return v == 0
    if base == "Enumerated":
        return v == 0
    return False


def judge(case):
    L = lib()
    cname, v, ctx = case["cls"], case["v"], case.get("ctx")
    klass, base = L.classes[cname]
    fails, octets = check_prim(cname, v, ctx)
    content = 0
    if octets:
        try:
            content = len(R.decode_tags(octets)[0][0][3])
        except Exception:
            content = 0
    nt = (not is_default(base, klass, v)) and (content > 1 or case.get("b") or (ctx is not None and ctx >= 15))
    labels = [base, "ctx" if ctx is not None else "app"]
    if octets is None and not fails:
        labels.append("refused-unrepresentable")
    key = (cname, ctx, octets.hex() if octets else repr(v))
    return Verdict(fails, bool(nt), labels, key)


# ---- generation --------------------------------------------------------------------------------------------------

def int_boundaries():
    out = set([0, 1, 2])
    for k in range(1, 5):
        for d in (-1, 0, 1):
            out.add((1 << (8 * k)) + d)
            out.add((1 << (8 * k - 1)) + d)
    return sorted(out)


UB = int_boundaries()
IB = sorted(set(UB) | set(-x for x in UB))
UNREP_U = [1 << 32, (1 << 32) + 5, 1 << 40, (1 << 64) - 1, 1 << 64]
UNREP_I = [1 << 31, (1 << 31) + 1, (1 << 32) + 5, -(1 << 31) - 1, -(1 << 32), 1 << 40, -(1 << 40), (1 << 63)]
F32_SPECIAL = ["00000000", "80000000", "00000001", "807fffff", "00800000", "7f7fffff", "ff7fffff", "7f800000", "ff800000",
               "7fc00000", "7f800001", "3f800000", "bf800000", "3eaaaaab", "42c80000"]
F64_SPECIAL = ["0000000000000000", "8000000000000000", "0000000000000001", "7fefffffffffffff", "7ff0000000000000",
               "fff0000000000000", "7ff8000000000000", "3ff0000000000000", "3fd5555555555555", "47efffffe0000000",
               "47effffff0000000", "36a0000000000000", "3690000000000000", "c7efffffe0000000", "3ff0000010000000"]
DT_SPECIAL = [0, 1, 12, 13, 14, 31, 32, 33, 34, 59, 99, 100, 127, 128, 254, 255]
OID_T = [0, 1, 63, 127, 128, 1022, 1023]
OID_I = [0, 1, (1 << 22) - 2, (1 << 22) - 1]


def fixed_cases(cname):
    """the enumerated part for one class: boundary tables, every enumeration name/number, every bit length"""
    L = lib()
    klass, base = L.classes[cname]
    vals = []
    if base == "Null":
        vals = [None]
    elif base == "Boolean":
        vals = [True, False]
    elif base == "Unsigned":
        vals = UB + UNREP_U + ([klass._high_limit, klass._high_limit + 1] if klass._high_limit is not None else [])
    elif base == "Integer":
        vals = IB + UNREP_I
    elif base == "Real":
        vals = [dict(f32=h) for h in F32_SPECIAL] + [dict(d=h) for h in F64_SPECIAL]
    elif base == "Double":
        vals = [dict(d=h) for h in F64_SPECIAL]
    elif base == "OctetString":
        vals = [dict(pat=[n, n & 0xFF]) for n in list(range(0, 8)) + [252, 253, 254, 255, 256, 257, 300, 65535, 65536, 70000]]
    elif base == "CharacterString":
        vals = [dict(s=s) for s in ["", "a", "\x00", "é", "€", "\U0001f600", "x" * 252, "x" * 253, "y" * 254, "é" * 126 + "z", "é" * 127, "w" * 65534, "w" * 65535] + TEXT_SPECIAL]
    elif base == "BitString":
        for n in range(0, 65):
            vals.append(dict(bits=[(i * 7 + n) % 3 == 0 and 1 or 0 for i in range(n)]))
            vals.append(dict(bits=[1] * n))
        names = sorted(klass.bitNames, key=lambda k: klass.bitNames[k])
        if names:
            vals += [dict(names=names), dict(names=names[::2]), dict(names=[names[-1]]), dict(names=[names[0]])]
            vals += [dict(names=[n]) for n in names]
    elif base == "Enumerated":
        by_name, by_num = enum_table(klass)
        vals = [dict(name=n) for n in sorted(by_name)] + sorted(by_num) + [0, 1, 255, 256, 65535, 65536, (1 << 24), (1 << 32) - 1, 1 << 32, (1 << 32) + 7, 1 << 40]
        unknown = [x for x in range(0, 2000) if x not in by_num][:3]
        vals += unknown
    elif base in ("Date", "Time"):
        vals = [[a, b, c, d] for a in (0, 1, 100, 254, 255) for b in (1, 12, 13, 14, 255, 0, 59) for c in (1, 31, 32, 33, 34, 255, 0) for d in (1, 7, 255, 0, 99)]
    elif base == "ObjectIdentifier":
        vals = [dict(word=(t << 22) | i) for t in OID_T for i in OID_I] + [dict(t=t, i=i) for t in OID_T for i in OID_I]
        vals += [dict(t=n, i=i) for n in sorted(enum_table(klass.objectTypeClass)[0]) for i in (0, (1 << 22) - 1)]
        vals += [dict(t=1024, i=0), dict(t=5, i=1 << 22), dict(t=2000, i=5), dict(word=0xFFFFFFFF), dict(word=0)]
    out = []
    for i, v in enumerate(vals):
        out.append(dict(k="prim", cls=cname, v=v, ctx=None, b=1))
        out.append(dict(k="prim", cls=cname, v=v, ctx=(i * 37) % 255, b=1))
    # one non-default value under every context number
    probe = {"Null": None, "Boolean": True, "Unsigned": 77, "Integer": -300, "Real": dict(f32="42c80000"), "Double": dict(d="3fd5555555555555"),
             "OctetString": dict(pat=[5, 1]), "CharacterString": dict(s="héllo"), "BitString": dict(bits=[1, 0, 1, 1, 0, 0, 1, 0, 1, 1]),
             "Enumerated": 1, "Date": [124, 2, 29, 4], "Time": [23, 59, 59, 99], "ObjectIdentifier": dict(t=8, i=1234)}[base]
    if base == "BitString" and klass.bitLen:
        probe = dict(bits=[1] + [0] * (klass.bitLen - 1))
    for c in range(255):
        out.append(dict(k="prim", cls=cname, v=probe, ctx=c, b=1))
    return out


def value_strategy(cname):
    from hypothesis import strategies as st
    L = lib()
    klass, base = L.classes[cname]
    if base == "Null":
        return st.none()
    if base == "Boolean":
        return st.booleans()
    if base == "Unsigned":
        hi = klass._high_limit if klass._high_limit is not None else 0xFFFFFFFF
        return st.one_of(st.integers(klass._low_limit, hi), st.sampled_from(UB), st.integers(hi + 1, 1 << 66))
    if base == "Integer":
        return st.one_of(st.integers(-(1 << 31), (1 << 31) - 1), st.sampled_from(IB), st.integers(1 << 31, 1 << 66), st.integers(-(1 << 66), -(1 << 31) - 1))
    if base == "Real":
        return st.one_of(st.binary(min_size=4, max_size=4).map(lambda b: dict(f32=b.hex())),
                         st.floats(allow_nan=True, allow_infinity=True).map(lambda x: dict(d=struct.pack(">d", x).hex())))
    if base == "Double":
        return st.one_of(st.binary(min_size=8, max_size=8).map(lambda b: dict(d=b.hex())),
                         st.floats(allow_nan=True, allow_infinity=True).map(lambda x: dict(d=struct.pack(">d", x).hex())))
    if base == "OctetString":
        return st.one_of(st.binary(max_size=40).map(lambda b: dict(hex=b.hex())), st.tuples(st.integers(0, 300), st.integers(0, 255)).map(lambda t: dict(pat=list(t))))
    if base == "CharacterString":
        return st.one_of(st.text(alphabet=st.characters(blacklist_categories=("Cs",)), max_size=30),
                         st.lists(st.sampled_from(TEXT_ATOMS), max_size=6).map("".join),
                         st.tuples(st.integers(240, 260), st.sampled_from(["a", "é", "€"])).map(lambda t: t[1] * t[0])).map(lambda s: dict(s=s))
    if base == "BitString":
        bits = st.integers(0, 64).flatmap(lambda n: st.lists(st.integers(0, 1), min_size=n, max_size=n)).map(lambda b: dict(bits=b))
        if klass.bitNames:
            return st.one_of(bits, st.lists(st.sampled_from(sorted(klass.bitNames)), unique=True, min_size=1).map(lambda n: dict(names=n)))
        return bits
    if base == "Enumerated":
        by_name, by_num = enum_table(klass)
        alts = [st.integers(0, 0xFFFFFFFF), st.integers(0, 300), st.integers(1 << 32, 1 << 40)]
        if by_name:
            alts.append(st.sampled_from(sorted(by_name)).map(lambda n: dict(name=n)))
        return st.one_of(*alts)
    if base in ("Date", "Time"):
        o = st.one_of(st.sampled_from(DT_SPECIAL), st.integers(0, 255))
        return st.tuples(o, o, o, o).map(list)
    if base == "ObjectIdentifier":
        tnames = sorted(enum_table(klass.objectTypeClass)[0])
        return st.one_of(st.integers(0, 0xFFFFFFFF).map(lambda w: dict(word=w)),
                         st.tuples(st.one_of(st.integers(0, 1023), st.sampled_from(tnames)), st.one_of(st.integers(0, 0x3FFFFF), st.sampled_from(OID_I))).map(lambda t: dict(t=t[0], i=t[1])))
    raise ValueError(base)


def plan(tier, seed):
    names = class_names()
    specs = []
    nsh = 16
    for i in range(nsh):
        specs.append(dict(name="classes-%d" % i, kind="classes", classes=names[i::nsh], n=1200 if tier == "quick" else 12000))
    # the same classes once more with the library's debug tracing switched on
    for i in range(4):
        specs.append(dict(name="tracing-%d" % i, kind="classes", classes=names[i::4], n=80 if tier == "quick" else 800, tracing=True))
    return specs


def run(spec, ctx):
    from hypothesis import strategies as st
    for cname in spec["classes"]:
        for c in fixed_cases(cname):
            ctx.check(c)
        vs = value_strategy(cname)
        strat = st.tuples(vs, st.one_of(st.none(), st.integers(0, 254), st.sampled_from([0, 14, 15, 16, 254]))).map(
            lambda t, cname=cname: dict(k="prim", cls=cname, v=t[0], ctx=t[1]))
        L = lib()
        base = L.classes[cname][1]
        n = spec["n"] * (6 if base not in ("Enumerated", "BitString") else 1)
        ctx.for_all(strat, n, salt=hash_name(cname))
    ctx.mark_exhaustive("every enumeration name and number, every bit-string length 0..64, every context number 0..254 (one value per class)")


def hash_name(s):
    h = 0
    for ch in s:
        h = (h * 131 + ord(ch)) & 0xFFFF
    return h
