"""C10 -- a device answers every well-framed request and stays healthy under garbage."""
from ..runner import Verdict, watchdog, Stall
from .. import clock as VC
from .. import boot
from ..lab_stack import StackLab, lib as lablib, Runaway
from .. import lab_device as LD
from ..ref import apci as RA, npci as RN, asn1 as R1, bvlc as RB

ID = "C10"
LEVEL = "exploration"
RULE = ("A real device (Application + Who-Is/I-Am, ReadProperty, WriteProperty, ReadPropertyMultiple, SubscribeCOV services, several "
        "objects) on the virtual LAN receives frames from a spoofing/sniffing attacker node. Seeds: valid requests of the "
        "supported services and a header-only request for EVERY confirmed service choice 0..255. Enumerated mutations of every "
        "seed: every single-octet position x sampled values (all 256 in thorough), truncation at every length, single "
        "insertions; Hypothesis: random octet strings injected as NPDUs and as APDU bodies behind a valid NPCI and fixed header, "
        "and histories of steps {inject k frames in the same instant, advance time} mixing garbage with valid requests. Oracle: "
        "each injected frame is classified by the independent NPCI/APCI decoders; a well-framed confirmed request (NPCI valid, "
        "no remote destination, APDU type 0, fixed header complete) must get exactly one reply to its sender carrying its invoke "
        "ID - ack of that service, error, reject or abort (first segment of a segmented request: segment-ack or abort); unmutated "
        "seeds must get the right kind of reply; after the history (pump to quiescence) the device holds no client/server "
        "transaction and no transaction timer, every valid request queued in the same instant as garbage was answered, and a "
        "final valid ReadProperty is answered with the right value. Non-trivial: a frame that passes NPCI+APCI header validation "
        "and is rejected deeper, or a history interleaving garbage and valid frames in one instant. Distinct by the frames."
        " Also: the device keeps I-Ams (all segmentation values incl. out-of-enumeration, max-APDU incl. 0/49/70000) and is then asked with and without segmented-response-accepted; Network-Number-Is learned 1..3 times before routed requests; dialogs in which the requester takes a segmented answer properly while unmatched aborts / segment-acks from others arrive (content equal to the undisturbed run); link-layer runs on BIPSimple / BIPBBMD / BIPForeign devices."
        " Hand-driven segmented requests with one damaged sequence number, answer compared with the request sent in one piece."
        " The device configured segmentedReceive is sent segmented requests. One reduced copy of a generated shard runs with the library's debug tracing switched on (label tracing-on).")
ASSUMPTIONS = [
    "frames carrying a DADR (routed / broadcast destinations) are not judged: a one-port device is not their addressee",
    "exceptions swallowed by the event loop name the root cause in the signature; they are not violations by themselves",
    "COV lifetime timers legitimately created by (mutated) SubscribeCOV requests are not residue; only transaction state machines and their timers are",
    "link-layer runs: the same device on BACnet/IP (BIPSimple, BIPBBMD, BIPForeign); only a request inside a correctly framed Original-Unicast-NPDU sent to the device's own address is owed a reply",
]

_seeds = None
PROBE_INVOKE = 250


def seeds():
    """[(name, service choice, body, expected reply kind or None)]"""
    global _seeds
    if _seeds is None:
        L = lablib()
        A = L.apdu
        from bacpypes.basetypes import PropertyReference
        from bacpypes.apdu import ReadAccessSpecification
        from bacpypes.primitivedata import Real
        out = []

        def add(name, req, expect):
            body, svc = LD.apdu_body(req)
            out.append((name, svc, body, expect))
        add("rp-device-name", A.ReadPropertyRequest(objectIdentifier=("device", 2), propertyIdentifier="objectName"), "complex")
        add("rp-av-present", A.ReadPropertyRequest(objectIdentifier=("analogValue", 1), propertyIdentifier="presentValue"), "complex")
        add("rp-objectlist-0", A.ReadPropertyRequest(objectIdentifier=("device", 2), propertyIdentifier="objectList", propertyArrayIndex=0), "complex")
        add("rp-unknown-object", A.ReadPropertyRequest(objectIdentifier=("analogValue", 99), propertyIdentifier="presentValue"), "error")
        wp = A.WritePropertyRequest(objectIdentifier=("analogValue", 1), propertyIdentifier="presentValue")
        wp.propertyValue = L.Any(Real(7.0))
        add("wp-av-present", wp, "any")
        wp2 = A.WritePropertyRequest(objectIdentifier=("characterstringValue", 1), propertyIdentifier="description", priority=8)
        wp2.propertyValue = L.Any(L.OctetString(b"\x01\x02"))
        add("wp-wrong-type", wp2, "any")
        rpm = A.ReadPropertyMultipleRequest(listOfReadAccessSpecs=[
            ReadAccessSpecification(objectIdentifier=("analogValue", 1), listOfPropertyReferences=[PropertyReference(propertyIdentifier="presentValue"), PropertyReference(propertyIdentifier="objectName")]),
            ReadAccessSpecification(objectIdentifier=("binaryValue", 1), listOfPropertyReferences=[PropertyReference(propertyIdentifier="all")])])
        add("rpm", rpm, "complex")
        rpm3 = A.ReadPropertyMultipleRequest(listOfReadAccessSpecs=[
            ReadAccessSpecification(objectIdentifier=("analogValue", 1), listOfPropertyReferences=[PropertyReference(propertyIdentifier="presentValue")]),
            ReadAccessSpecification(objectIdentifier=("analogValue", 77), listOfPropertyReferences=[PropertyReference(propertyIdentifier="presentValue")]),
            ReadAccessSpecification(objectIdentifier=("device", 2), listOfPropertyReferences=[PropertyReference(propertyIdentifier="objectList", propertyArrayIndex=1), PropertyReference(propertyIdentifier="modelName")]),
            ReadAccessSpecification(objectIdentifier=("multiStateValue", 1), listOfPropertyReferences=[PropertyReference(propertyIdentifier="required")])])
        add("rpm-4-specs", rpm3, "complex")
        add("subscribe-cov", A.SubscribeCOVRequest(subscriberProcessIdentifier=3, monitoredObjectIdentifier=("analogValue", 1), issueConfirmedNotifications=False, lifetime=5), "simple")
        add("subscribe-cov-cancel", A.SubscribeCOVRequest(subscriberProcessIdentifier=3, monitoredObjectIdentifier=("analogValue", 1)), "simple")
        for svc in range(256):
            out.append(("header-only-%d" % svc, svc, b"", "any"))
        _seeds = out
    return _seeds


def probe_frame():
    L = lablib()
    body, svc = LD.apdu_body(L.apdu.ReadPropertyRequest(objectIdentifier=("device", 2), propertyIdentifier="objectName"))
    return LD.request_frame(PROBE_INVOKE, svc, body)


def probe_expected_body():
    return R1.encode_tag((R1.CTX, 0, 4, R1.enc_oid(8, 2))) + R1.encode_tag((R1.CTX, 1, 1, bytes([77]))) + R1.encode_tag((R1.OPEN, 3, 0, b"")) + \
        R1.encode_tag((R1.APP, R1.CHARS, 5, b"\x00dev2")) + R1.encode_tag((R1.CLOSE, 3, 0, b""))


def classify(frame):
    """-> None (no reply owed / not judged) or dict(invoke, service, seg)"""
    try:
        n = RN.decode(frame)
    except RN.Reject:
        return None
    if n["msg"] is not None or n["dadr"] is not None or n["unspecified"]:
        return None
    try:
        a = RA.decode(n["data"])
    except RA.Reject:
        return None
    if a["type"] != RA.CONF:
        return None
    return dict(invoke=a["invoke"], service=a["service"], seg=a["seg"], maxresp=a["maxresp"], body=a["data"], sadr=n["sadr"])


def RA_reply_invoke(data):
    """invoke ID of a frame that completes a transaction (a segmented answer is not complete)"""
    try:
        n = RN.decode(data)
        if n["msg"] is not None:
            return None
        a = RA.decode(n["data"])
        if a["type"] == 3 and a.get("seg"):
            return None
        if a["type"] not in (2, 3, 5, 6, 7):
            return None
        return ((n["dadr"][1], bytes(n["dadr"][2])) if n["dadr"] is not None and n["dadr"][0] == "rs" else None, a.get("invoke"))
    except (RN.Reject, RA.Reject):
        return None


_dialog_baseline = {}


def run_history(steps, dev_seg="segmentedBoth"):
    """steps: ["inject", [hex, ...]] | ["adv", dt] | ["dialog", seed, invoke, window, [[round, hex], ...]].  Returns (fails, stats)."""
    L = lablib()
    DeviceApp, ClientApp = LD.device_classes()
    # the undisturbed run of every dialog in this history comes first (a lab of its own: labs cannot be nested)
    for st_ in steps:
        if st_[0] == "dialog" and st_[4] and (st_[1] % 2,) not in _dialog_baseline:
            run_history([["dialog", st_[1], st_[2], st_[3], []]])
        if st_[0] == "segreq" and ("segreq", st_[1] % 2) not in _dialog_baseline:
            if st_[4] is not None or dev_seg != "segmentedBoth":
                run_history([["segreq", st_[1], st_[2], st_[3], None]])
    lab = StackLab()
    boot.swallowed.take()
    dev = lab.add_stack(2, DeviceApp, segmentation=dev_seg, max_apdu=1024, max_segs=16, retries=1, apdu_timeout=1000, seg_timeout=500, app_timeout=3000)
    LD.populate(dev)
    dev.app.record_iam = True          # the device keeps what its peers announce about themselves
    att = lab.add_attacker(99)
    owed = []            # classified well-framed requests, in injection order
    used = set()
    stats = dict(injected=0, well_framed=0, mixed_instants=0, rejected_deeper=0)
    fails = []
    try:
        for st_ in steps:
            if st_[0] == "inject":
                kinds = set()
                for hx in st_[1]:
                    src_mac = 99
                    lan_bcast = hx.endswith("*")
                    hx = hx.rstrip("*")
                    if "@" in hx:
                        hx, m_ = hx.split("@")
                        src_mac = int(m_)
                    frame = bytes.fromhex(hx)
                    c = classify(frame) if not lan_bcast else None
                    if c is not None:
                        c["via"] = src_mac
                        c["client"] = (src_mac, (c["sadr"][0], bytes(c["sadr"][1])) if c["sadr"] is not None else None)
                    if c is not None:
                        if c["invoke"] == PROBE_INVOKE or (c["sadr"] is not None and (c["sadr"][0] in (0, 65535) or not c["sadr"][1])):
                            continue
                        if (c["client"], c["invoke"]) in used:
                            # a client may reuse an invoke ID once the earlier request with it has been answered
                            prev = [o for o in owed if o["invoke"] == c["invoke"] and o["client"] == c["client"]][-1]
                            answered = any(RA_reply_invoke(d) == (c["client"][1], c["invoke"]) and dst is not None and dst.addrAddr == bytes([c["via"]])
                                           for (t, src, dst, d) in att.seen[prev["idx"]:] if src is not None and src.addrAddr == b"\x02")
                            if not answered or prev["seg"]:
                                continue
                            stats["reused_ids"] = stats.get("reused_ids", 0) + 1
                        used.add((c["client"], c["invoke"]))
                        c["t"] = lab.now
                        c["idx"] = len(att.seen)
                        c["frame"] = hx
                        owed.append(c)
                        stats["well_framed"] += 1
                        kinds.add("wf")
                    else:
                        kinds.add("garbage")
                    stats["injected"] += 1
                    lab.inject(src_mac, None if lan_bcast else 2, frame)
                if len(kinds) == 2:
                    stats["mixed_instants"] += 1
                lab.settle()
            elif st_[0] == "dialog":
                # a requester that takes a segmented answer properly (acks every window) while strangers' aborts / segment-acks fly by:
                # the transfer must complete with the same content as without them
                _, si, inv, win, strays = st_
                stats["dialogs"] = stats.get("dialogs", 0) + 1
                name, svc, body, expect = seeds()[6 + si % 2]
                frame = LD.request_frame(inv, svc, body, maxresp=0, maxsegs=0, sa=True)
                c = classify(frame)
                c.update(via=99, client=(99, None), t=lab.now, idx=len(att.seen), frame=frame.hex(), segdialog=True)
                used.add((c["client"], inv))
                owed.append(c)
                stats["well_framed"] += 1
                lab.inject(99, 2, frame)
                lab.settle()
                got, done_, aborted, pos = {}, False, None, c["idx"]
                for rnd in range(120):
                    last = None
                    for (t, src, dst, data) in att.seen[pos:]:
                        if src is None or src.addrAddr != b"\x02" or dst is None or dst.addrAddr != bytes([99]):
                            continue
                        try:
                            a = RA.decode(RN.decode(data)["data"])
                        except Exception:
                            continue
                        if a.get("invoke") != inv:
                            continue
                        if a["type"] == 3 and a.get("seg"):
                            if a["seq"] == (max(got) + 1 if got else 0):
                                got[a["seq"]] = bytes(a["data"])
                            last = a
                            if not a["mor"] and a["seq"] in got:
                                done_ = True
                        elif a["type"] == 3:
                            got[0] = bytes(a["data"])
                            done_ = True
                        elif a["type"] == 7:
                            aborted = a.get("reason")
                    pos = len(att.seen)
                    for when, hx in strays:
                        if when == rnd:
                            m_ = 99
                            if "@" in hx:
                                hx, mm = hx.split("@")
                                m_ = int(mm)
                            stats["injected"] += 1
                            lab.inject(m_, 2, bytes.fromhex(hx))
                    if aborted is not None or (done_ and last is None):
                        break
                    if last is not None or got:
                        ack = RN.encode(dict(msg=None, dadr=None, sadr=None, er=False, prio=0, hop=None,
                                             data=RA.encode(dict(type=RA.SEGACK, nak=False, srv=False, invoke=inv, seq=max(got) if got else 0, win=win))))
                        lab.inject(99, 2, ack)
                    lab.settle()
                    if done_:
                        break
                    if last is None:
                        lab.run(lab.now + 0.6)
                        VC.clk.now = max(VC.clk.now, lab.now)
                content = b"".join(got[k_] for k_ in sorted(got))
                base = _dialog_baseline.get((si % 2,))
                if not strays:
                    _dialog_baseline[(si % 2,)] = (done_, content)
                if strays and base is not None and base[0]:
                    if not done_:
                        fails.append(("dialog:segmented-answer-%s-by-stray-frame" % ("aborted" if aborted is not None else "stalled"),
                                      "a segmented answer (invoke %d) taken properly by its requester did not complete (abort reason %r, %d segments received) while these frames from others arrived: %r"
                                      % (inv, aborted, len(got), strays)))
                    elif content != base[1]:
                        fails.append(("dialog:segmented-answer-content-changed", "invoke %d: %d octets instead of %d" % (inv, len(content), len(base[1]))))
            elif st_[0] == "segreq":
                # a requester that sends its request in segments, properly, and once has a sequence number corrupted on the way: it is told so by a
                # negative ack, resumes where it is told to, and must get the same answer as for the request sent in one piece
                _, si, inv, win, glitch_at = st_
                stats["segreqs"] = stats.get("segreqs", 0) + 1
                name, svc, body, expect = seeds()[6 + si % 2]
                chunks = [body[i_:i_ + 14] for i_ in range(0, len(body), 14)]
                nseg = len(chunks)

                def segf(seq, data=None):
                    apdu = RA.encode(dict(type=RA.CONF, seg=True, mor=seq < nseg - 1, sa=False, maxsegs=0, maxresp=5, invoke=inv, service=svc,
                                          data=chunks[seq] if data is None else data, seq=seq % 256, win=win))
                    return RN.encode(dict(msg=None, dadr=None, sadr=None, er=True, prio=0, hop=None, data=apdu))
                c = classify(segf(0))
                c.update(via=99, client=(99, None), t=lab.now, idx=len(att.seen), frame=segf(0).hex(), segdialog=True)
                used.add((c["client"], inv))
                owed.append(c)
                stats["well_framed"] += 1
                pos = len(att.seen)
                lab.inject(99, 2, segf(0))
                lab.settle()
                nxt, aw, glitched, reply = 1, 1, False, None
                for rnd in range(60):
                    ack = None
                    for (t, src, dst, data) in att.seen[pos:]:
                        if src is None or src.addrAddr != b"\x02" or dst is None or dst.addrAddr != bytes([99]):
                            continue
                        try:
                            a = RA.decode(RN.decode(data)["data"])
                        except Exception:
                            continue
                        if a.get("invoke") != inv:
                            continue
                        if a["type"] == 4:
                            ack = a
                        elif a["type"] in (2, 3, 5, 6, 7):
                            reply = (a["type"], a.get("service"), a.get("reason"), bytes(a.get("data", b"")))
                    pos = len(att.seen)
                    if reply is not None:
                        break
                    if ack is not None:
                        nxt = ack["seq"] + 1
                        aw = max(1, min(ack["win"], win))
                    elif rnd > 0:
                        lab.run(lab.now + 0.6)
                        VC.clk.now = max(VC.clk.now, lab.now)
                        if rnd > 12:
                            break
                    sent = 0
                    while nxt < nseg and sent < aw:
                        lab.inject(99, 2, segf(nxt))
                        sent += 1
                        if glitch_at is not None and nxt == glitch_at and not glitched and nxt + 1 < nseg:
                            glitched = True
                            stats["injected"] += 1
                            lab.inject(99, 2, segf((nxt + 3) % 256, chunks[nxt + 1]))        # the next segment, its sequence number damaged
                            break
                        nxt += 1
                    lab.settle()
                base = _dialog_baseline.get(("segreq", si % 2))
                if glitch_at is None and dev_seg == "segmentedBoth":
                    _dialog_baseline[("segreq", si % 2)] = reply
                elif glitch_at is None and base is not None and reply != base:
                    fails.append(("segmented-request:device-%s:%s" % (dev_seg, "no-answer" if reply is None else "other-answer"),
                                  "a device configured %s was sent a request in %d segments and answered %r; a device that supports both directions answers %r" % (dev_seg, nseg, reply and reply[:3], base and base[:3])))
                elif base is not None and reply != base:
                    fails.append(("segmented-request:damaged-sequence-number:%s" % ("no-answer" if reply is None else "other-answer"),
                                  "a request of %d segments (window %d) whose segment after %d arrived with a damaged sequence number, resumed as the negative ack said, was answered %r; sent properly it is answered %r"
                                  % (nseg, win, glitch_at, reply and reply[:3], base and base[:3])))
            elif st_[0] == "adv":
                lab.run(lab.now + float(st_[1]))
                VC.clk.now = max(VC.clk.now, lab.now)
        quiescent = lab.run(lab.now + 200.0)
        sw_before_probe = [r for r in boot.swallowed.take() if r[0]]
        # residue
        res = dict(server_tr=len(dev.smap.serverTransactions), client_tr=len(dev.smap.clientTransactions), timers=len(dev.timers()))
        # final probe
        lab.inject(99, 2, probe_frame())
        lab.run(lab.now + 5.0)
    except Runaway:
        return [("runaway-traffic", "more than 20000 frames")], stats
    exc = ""
    if sw_before_probe:
        exc = ":%s@%s" % (sw_before_probe[0][0], sw_before_probe[0][1])
    # replies seen by the attacker
    replies = {}
    for pos, (t, src, dst, data) in enumerate(att.seen):
        if src is None or src.addrAddr != b"\x02":
            continue
        try:
            n = RN.decode(data)
            if n["msg"] is not None:
                continue
            a = RA.decode(n["data"])
        except (RN.Reject, RA.Reject):
            fails.append(("device-sent-undecodable-frame", data[:24].hex()))
            continue
        a["t"] = t
        a["idx"] = pos
        a["dadr"] = n["dadr"]
        a["lan_dst"] = dst.addrAddr[0] if dst is not None and dst.addrAddr else None
        if a["type"] in (2, 3, 4, 5, 6, 7) and "invoke" in a:
            if a["type"] in (4, 7) and not a["srv"] and a["invoke"] in [c["invoke"] for c in owed] and not any(o.get("segdialog") for o in owed):
                # an abort / segment-ack answering a request must carry the sent-by-server flag, or the requester cannot match it
                fails.append(("reply-without-server-flag:%s" % RA.NAMES[a["type"]], "invoke %d" % a["invoke"]))
            a["client"] = (a["lan_dst"], (a["dadr"][1], bytes(a["dadr"][2])) if a["dadr"] is not None and a["dadr"][0] == "rs" else None)
            replies.setdefault((a["client"], a["invoke"]), []).append(a)
    for ci, c in enumerate(owed):
        later = [o["idx"] for o in owed[ci + 1:] if o["invoke"] == c["invoke"] and o["client"] == c["client"]]
        i_next = later[0] if later else float("inf")
        rs = [r for r in replies.get((c["client"], c["invoke"]), []) if c["idx"] <= r["idx"] < i_next]
        final = [r for r in rs if r["type"] in (2, 3, 5, 6, 7) and not (r["type"] == 3 and r.get("seg") and r["seq"] != 0)]
        segacks = [r for r in rs if r["type"] == 4]
        # retransmissions of the first segment of a segmented answer are one reply
        distinct = []
        for r in final:
            key = (r["type"], r.get("service"), r.get("reason"), r.get("seg"), bytes(r.get("data", b"")))
            if key not in distinct:
                distinct.append(key)
        what = "service %d, body %s" % (c["service"], c["body"][:20].hex())
        if c["seg"]:
            if not segacks and not final:
                fails.append(("silence:segmented-request%s" % exc, "first segment of a segmented request (invoke %d, %s) got neither segment-ack nor abort; frame %s" % (c["invoke"], what, c["frame"][:60])))
            continue
        if not final:
            fails.append(("silence%s" % exc, "well-framed request (invoke %d, %s) got no reply; frame %s; swallowed %r" % (c["invoke"], what, c["frame"][:80], sw_before_probe[:2])))
        elif len(distinct) > 1:
            fails.append(("%d-replies%s" % (len(distinct), exc), "request (invoke %d, %s) got replies %r" % (c["invoke"], what, [(d[0], d[1], d[2]) for d in distinct])))
        else:
            r = final[0]
            if r["type"] in (2, 3, 5) and r["service"] != c["service"]:
                fails.append(("reply-for-other-service", "request for service %d answered with %s for service %d" % (c["service"], RA.NAMES[r["type"]], r["service"])))
            exp = c.get("expect")
            if exp and exp != "any":
                kind = {2: "simple", 3: "complex", 5: "error", 6: "reject", 7: "abort"}[r["type"]]
                if kind != exp:
                    fails.append(("valid-request-wrong-reply:%s-for-%s" % (kind, exp), "%s answered with %s" % (c.get("name"), kind)))
            if r["type"] in (6, 7):
                stats["rejected_deeper"] += 1
        if fails:
            break
    # (tasks still pending after 200 s are COV lifetimes a mutated SubscribeCOV legitimately created; transaction timers are judged below)
    if res["server_tr"] or res["client_tr"] or res["timers"]:
        fails.append(("residue%s" % exc, "at quiescence the device holds %d server transaction(s), %d client transaction(s), %d transaction timer(s); swallowed %r"
                      % (res["server_tr"], res["client_tr"], res["timers"], sw_before_probe[:2])))
    pr = [r for r in replies.get(((99, None), PROBE_INVOKE), []) if r["type"] in (2, 3, 5, 6, 7)]
    if not pr:
        fails.append(("dead-after%s" % exc, "the final valid ReadProperty was not answered"))
    elif pr[0]["type"] != 3 or bytes(pr[0]["data"]) != probe_expected_body():
        fails.append(("wrong-after%s" % exc, "the final valid ReadProperty was answered with %s %s" % (RA.NAMES[pr[0]["type"]], bytes(pr[0]["data"]).hex())))
    return fails[:3], stats



# ---- the same device on BACnet/IP: datagrams enter below the BVLL layer ----------------------------------------------------------

DEV_IP = "192.168.1.2"
ATT_IP = "192.168.1.9"


class LinkLab(object):
    """DeviceApp + ASAP + SMAP + NSAP/NSE + BIPSimple|BIPBBMD|BIPForeign + AnnexJCodec + multiplexer shim on a virtual IP subnet;
    the attacker is a bare IP node that sends arbitrary UDP payloads and records every datagram it receives"""

    def __init__(self, kind):
        from .c13 import lib as biplib
        BL = biplib()
        L = lablib()
        VC.reset(0.0)
        boot.swallowed.take()
        DeviceApp, ClientApp = LD.device_classes()
        self.datagrams = []
        self.net = BL.vlan.IPNetwork("ip")
        addr = BL.Address("%s/24" % DEV_IP)
        self.device = L.LocalDeviceObject(objectName="dev2", objectIdentifier=("device", 2), maxApduLengthAccepted=1024, segmentationSupported="segmentedBoth",
                                          maxSegmentsAccepted=16, vendorIdentifier=999, numberOfApduRetries=1, apduTimeout=1000, apduSegmentTimeout=500)
        self.app = DeviceApp(self.device)
        self.app.stack = self
        self.asap = L.appservice.ApplicationServiceAccessPoint()
        self.smap = L.appservice.StateMachineAccessPoint(self.device)
        self.smap.deviceInfoCache = self.app.deviceInfoCache
        self.smap.applicationTimeout = 3000
        self.nsap = L.netservice.NetworkServiceAccessPoint()
        self.nse = L.NSE()
        L.bind(self.nse, self.nsap)
        L.bind(self.app, self.asap, self.smap, self.nsap)
        if kind == "simple":
            self.bip = BL.BS.BIPSimple()
        elif kind == "bbmd":
            self.bip = BL.BS.BIPBBMD(addr)
            self.bip.add_peer(addr)
        else:
            self.bip = BL.BS.BIPForeign()
            self.bip.register(BL.Address(ATT_IP), 30)       # its registrar is the attacker: acknowledged only if the garbage says so
        self.mux = BL.Mux(addr, self.net, self)
        L.bind(self.bip, BL.BS.AnnexJCodec(), self.mux)
        self.nsap.bind(self.bip)
        LD.populate(self)
        self.app.record_iam = True
        self.att_addr = BL.Address("%s/24" % ATT_IP)
        seen = self.seen = []

        class Att(BL.Client):
            def confirmation(self_, pdu):
                seen.append((VC.clk.now, pdu.pduSource, pdu.pduDestination, bytes(pdu.pduData)))
        self.att = Att()
        self.att_node = BL.vlan.IPNode(self.att_addr, self.net)
        L.bind(self.att, self.att_node)
        self.BL = BL

    def inject(self, octets, broadcast=False):
        BL = self.BL
        dst = (DEV_IP, 47808) if not broadcast else self.att_addr.addrBroadcastTuple
        self.att.request(BL.PDU(bytes(octets), source=self.att_addr.addrTuple, destination=dst))

    def timers(self):
        return [t for (when, n, t) in VC.tm.tasks if getattr(t, "ssmSAP", None) is self.smap]


def link_frame(npdu, fn=10):
    return RB.encode(fn, dict(data=npdu))


def run_link_history(kind, steps):
    """steps: ["inject", [hex | hex+"*" (sent to the subnet broadcast address), ...]] | ["adv", dt]"""
    lab = LinkLab(kind)
    VC.settle()
    owed, used, same_id = [], set(), {}
    stats = dict(injected=0, well_framed=0, mixed_instants=0, rejected_deeper=0, bvll_valid=0, bvll_refused=0)
    fails = []
    for st_ in steps:
        if st_[0] == "inject":
            kinds = set()
            for hx in st_[1]:
                bc = hx.endswith("*")
                dg = bytes.fromhex(hx.rstrip("*"))
                c = None
                try:
                    fn, p = RB.decode(dg)
                    stats["bvll_valid"] += 1
                    if fn in (4, 9, 10, 11):
                        c = classify(p["data"])
                        if c is not None:
                            # any carrier may bring a request up to the application; only Original-Unicast to the device is owed a reply
                            same_id[c["invoke"]] = same_id.get(c["invoke"], 0) + 1
                        if fn != 10 or bc:
                            c = None
                except RB.Reject:
                    stats["bvll_refused"] += 1
                if c is not None and (c["invoke"] == PROBE_INVOKE or c["sadr"] is not None or c["invoke"] in used):
                    c = None
                    kinds.add("other")
                elif c is not None:
                    used.add(c["invoke"])
                    c["idx"] = len(lab.seen)
                    c["frame"] = hx
                    owed.append(c)
                    stats["well_framed"] += 1
                    kinds.add("wf")
                else:
                    kinds.add("garbage")
                stats["injected"] += 1
                lab.inject(dg, bc)
            if "wf" in kinds and "garbage" in kinds:
                stats["mixed_instants"] += 1
            VC.settle()
        else:
            t = VC.clk.now + float(st_[1])
            VC.pump(t, 2000000, stay=True)
            VC.clk.now = max(VC.clk.now, t)
    VC.pump(VC.clk.now + 200.0, 2000000, stay=True)
    sw = [r for r in boot.swallowed.take() if r[0]]
    exc = ":%s@%s" % (sw[0][0], sw[0][1]) if sw else ""
    res = dict(server_tr=len(lab.smap.serverTransactions), client_tr=len(lab.smap.clientTransactions), timers=len(lab.timers()))
    probe_idx = len(lab.seen)
    lab.inject(link_frame(probe_frame()))
    VC.pump(VC.clk.now + 5.0, 2000000, stay=True)
    replies = {}
    for pos, (t, src, dst, data) in enumerate(lab.seen):
        if src != (DEV_IP, 47808):
            continue
        try:
            fn, p = RB.decode(data)
        except RB.Reject as err:
            fails.append(("link:device-sent-invalid-bvll:%s" % err, data[:24].hex()))
            continue
        if fn != 10 or dst != (ATT_IP, 47808):
            continue
        try:
            n = RN.decode(p["data"])
            if n["msg"] is not None:
                continue
            a = RA.decode(n["data"])
        except (RN.Reject, RA.Reject):
            fails.append(("link:device-sent-undecodable-frame", data[:24].hex()))
            continue
        a["idx"] = pos
        if a["type"] in (2, 3, 4, 5, 6, 7) and "invoke" in a and n["dadr"] is None:
            replies.setdefault(a["invoke"], []).append(a)
    for c in owed:
        rs = [r for r in replies.get(c["invoke"], []) if r["idx"] >= c["idx"]]
        final = [r for r in rs if r["type"] in (2, 3, 5, 6, 7) and not (r["type"] == 3 and r.get("seg") and r["seq"] != 0)]
        segacks = [r for r in rs if r["type"] == 4]
        distinct = []
        for r in final:
            key = (r["type"], r.get("service"), r.get("reason"), r.get("seg"), bytes(r.get("data", b"")))
            if key not in distinct:
                distinct.append(key)
        what = "service %d, body %s" % (c["service"], c["body"][:20].hex())
        if c["seg"]:
            if not segacks and not final:
                fails.append(("link:silence:segmented-request%s" % exc, "first segment of a segmented request (invoke %d, %s) in an Original-Unicast-NPDU got neither segment-ack nor abort" % (c["invoke"], what)))
            continue
        if not final:
            fails.append(("link:silence%s" % exc, "%s device: well-framed request (invoke %d, %s) in an Original-Unicast-NPDU got no reply; datagram %s; swallowed %r" % (kind, c["invoke"], what, c["frame"][:80], sw[:2])))
        elif len(distinct) > same_id.get(c["invoke"], 1):
            # (several well-framed requests carrying one invoke ID - a mutation can produce that - may each be answered)
            fails.append(("link:%d-replies%s" % (len(distinct), exc), "request (invoke %d, %s) got replies %r" % (c["invoke"], what, [(d[0], d[1], d[2]) for d in distinct])))
        else:
            mine = [r for r in final if r["type"] in (6, 7) or r["service"] == c["service"]]
            r = mine[0] if mine and same_id.get(c["invoke"], 1) > 1 else final[0]
            if r["type"] in (2, 3, 5) and r["service"] != c["service"]:
                fails.append(("link:reply-for-other-service", "request for service %d answered with %s for service %d" % (c["service"], RA.NAMES[r["type"]], r["service"])))
            if r["type"] in (6, 7):
                stats["rejected_deeper"] += 1
        if fails:
            break
    if res["server_tr"] or res["client_tr"] or res["timers"]:
        fails.append(("link:residue%s" % exc, "at quiescence the %s device holds %d server transaction(s), %d client transaction(s), %d transaction timer(s); swallowed %r"
                      % (kind, res["server_tr"], res["client_tr"], res["timers"], sw[:2])))
    pr = [r for r in replies.get(PROBE_INVOKE, []) if r["type"] in (2, 3, 5, 6, 7) and r["idx"] >= probe_idx]
    if not pr:
        fails.append(("link:dead-after%s" % exc, "%s device: the final valid ReadProperty was not answered; swallowed %r" % (kind, sw[:2])))
    elif pr[0]["type"] != 3 or bytes(pr[0]["data"]) != probe_expected_body():
        fails.append(("link:wrong-after%s" % exc, "the final valid ReadProperty was answered with %s %s" % (RA.NAMES[pr[0]["type"]], bytes(pr[0]["data"]).hex())))
    return fails[:3], stats


def judge(case):
    try:
        with watchdog(120):
            steps = case["steps"]
            if case.get("k") == "link":
                fails, stats = run_link_history(case["dev"], steps)
            elif case.get("expect"):
                # an unmutated seed: attach the expectation to the first frame
                fails, stats = run_history_expect(steps, case["expect"], case.get("name"))
            else:
                fails, stats = run_history(steps, case.get("dev_seg", "segmentedBoth"))
    except Stall:
        return Verdict([("stall", "the lab did not come back within 120 s of real time")], True, ("stall",))
    nt = stats["rejected_deeper"] > 0 or stats["mixed_instants"] > 0
    labels = ["wf:%d" % min(stats["well_framed"], 3)]
    if stats["mixed_instants"]:
        labels.append("mixed-instant")
    if case.get("k") == "link":
        labels.append("link:" + case["dev"])
        if stats["bvll_refused"]:
            labels.append("link:bad-bvll-header")
    return Verdict(fails, nt, labels)


_expect = {}


def run_history_expect(steps, expect, name):
    _expect["v"] = (expect, name)
    orig = globals()["classify"]

    def cl(frame):
        c = orig(frame)
        if c is not None and "v" in _expect:
            c["expect"], c["name"] = _expect.pop("v")
        return c
    globals()["classify"] = cl
    try:
        return run_history(steps)
    finally:
        globals()["classify"] = orig
        _expect.pop("v", None)


# ---- generation --------------------------------------------------------------------------------------------------------------

def seed_frame(i, invoke=1, **kw):
    name, svc, body, expect = seeds()[i]
    return LD.request_frame(invoke, svc, body, **kw)


def plan(tier, seed):
    n = len(seeds())
    specs = [dict(name="seeds", kind="seeds")]
    main = list(range(10))
    for i in main:
        specs.append(dict(name="mutate-%s" % seeds()[i][0], kind="mutate", seed=i, tier=tier))
    for s in range(4):
        specs.append(dict(name="mutate-header-only-%d" % s, kind="mutate-ho", idx=list(range(10 + s, n, 4)), tier=tier))
    for i in range(6):
        specs.append(dict(name="bodies-%d" % i, kind="bodies", n=4000 if tier == "quick" else 40000))
    for i in range(6):
        specs.append(dict(name="histories-%d" % i, kind="hist", n=1500 if tier == "quick" else 15000))
    specs.append(dict(name="announced-peers", kind="iam", tier=tier))
    for dev in ("simple", "bbmd", "foreign"):
        specs.append(dict(name="link-mutate-%s" % dev, kind="link-mutate", dev=dev, tier=tier, part="octets"))
        specs.append(dict(name="link-functions-%s" % dev, kind="link-mutate", dev=dev, tier=tier, part="functions"))
        specs.append(dict(name="link-histories-%s" % dev, kind="link-hist", dev=dev, n=1200 if tier == "quick" else 12000))
    # once more with the library's debug tracing switched on
    specs.append(dict(name="tracing-histories", kind="hist", n=250 if tier == "quick" else 2500, tracing=True))
    specs.append(dict(name="tracing-bodies", kind="bodies", n=600 if tier == "quick" else 6000, tracing=True))
    specs.append(dict(name="tracing-link-histories", kind="link-hist", dev="bbmd", n=200 if tier == "quick" else 2000, tracing=True))
    return specs


def run(spec, ctx):
    kind = spec["kind"]
    if kind == "seeds":
        for i, (name, svc, body, expect) in enumerate(seeds()):
            ctx.check(dict(k="h", steps=[["inject", [seed_frame(i, invoke=7).hex()]]], expect=expect, name=name))
        ctx.mark_exhaustive("every seed unmutated, incl. a header-only request for every service choice 0..255")
    elif kind == "mutate":
        frame = seed_frame(spec["seed"], invoke=9)
        vals = range(256) if spec["tier"] == "thorough" else (0x00, 0x01, 0x0E, 0x0F, 0x1E, 0x2F, 0x3E, 0x55, 0x7F, 0x80, 0xC4, 0xFE, 0xFF)
        for pos in range(len(frame)):
            for v in vals:
                if frame[pos] == v:
                    continue
                m = frame[:pos] + bytes([v]) + frame[pos + 1:]
                ctx.check(dict(k="h", steps=[["inject", [m.hex()]]]))
            # +1 / xor 0x08 (class bit) / xor 0x01
            for m in (frame[:pos] + bytes([(frame[pos] + 1) & 0xFF]) + frame[pos + 1:], frame[:pos] + bytes([frame[pos] ^ 0x08]) + frame[pos + 1:]):
                ctx.check(dict(k="h", steps=[["inject", [m.hex()]]]))
        for cut in range(len(frame)):
            ctx.check(dict(k="h", steps=[["inject", [frame[:cut].hex()]]]))
        for pos in range(2, len(frame) + 1):
            for v in (0x00, 0x0E, 0x0F, 0x3E, 0xFF, 0x19):
                ctx.check(dict(k="h", steps=[["inject", [(frame[:pos] + bytes([v]) + frame[pos:]).hex()]]]))
        ctx.mark_exhaustive("single-octet substitutions (sampled values), every truncation, single insertions of seed %s" % seeds()[spec["seed"]][0])
    elif kind == "mutate-ho":
        # header-only requests: the max-APDU / max-segments octet and flag bits in all values, one body octet
        for i in spec["idx"]:
            name, svc, body, expect = seeds()[i]
            if svc % 8 == 0 or svc < 30 or spec["tier"] == "thorough":
                for o1 in range(256) if svc < 2 or spec["tier"] == "thorough" else (0x00, 0x05, 0x06, 0x0F, 0x75, 0xF5):
                    f = bytearray(LD.request_frame(11, svc, b""))
                    f[3] = o1
                    ctx.check(dict(k="h", steps=[["inject", [bytes(f).hex()]]]))
            for extra in (b"\x00", b"\x0e", b"\x0f", b"\x09\x01", b"\x3e\x3f", b"\xff"):
                ctx.check(dict(k="h", steps=[["inject", [LD.request_frame(12, svc, extra).hex()]]]))
    elif kind == "bodies":
        from hypothesis import strategies as st
        tagsoup = st.lists(st.one_of(st.sampled_from([b"\x0e", b"\x0f", b"\x1e", b"\x1f", b"\x2e", b"\x2f", b"\x3e", b"\x3f", b"\x09\x01", b"\x19\x55", b"\x0c\x02\x00\x00\x02",
                                                       b"\x0c\x00\x80\x00\x01", b"\x1e\x09\x55\x1f", b"\x29\x00", b"\x44\x40\xe0\x00\x00", b"\x91\x00", b"\x21\x05", b"\x75\x03\x00ab"]),
                                     st.binary(min_size=1, max_size=3)), max_size=8).map(b"".join)
        body = st.one_of(st.binary(max_size=24), tagsoup)
        svc = st.one_of(st.sampled_from([12, 14, 15, 5, 28, 6, 7, 8, 10, 11, 26, 18]), st.integers(0, 255))
        o1 = st.one_of(st.just(5), st.just(5), st.integers(0, 255))
        flags = st.one_of(st.just(0), st.just(0), st.integers(0, 15))

        def mk(t):
            f = bytearray(LD.request_frame(21, t[0], t[1]))
            f[3] = t[2]
            f[2] = (f[2] & 0xF0) | t[3]
            return dict(k="h", steps=[["inject", [bytes(f).hex()]]])
        npdu = st.binary(max_size=30).map(lambda b: dict(k="h", steps=[["inject", [b.hex(), (b"\x01" + b).hex()]]]))
        ctx.for_all(st.one_of(st.tuples(svc, body, o1, flags).map(mk), npdu), spec["n"])
    elif kind == "hist":
        from hypothesis import strategies as st
        nseeds = len(seeds())

        def valid(t):
            return LD.request_frame(t[1], seeds()[t[0]][1], seeds()[t[0]][2]).hex()
        vf = st.tuples(st.integers(0, 9), st.integers(0, 12)).map(valid)

        def mut(t):
            f = bytearray(LD.request_frame(t[1], seeds()[t[0]][1], seeds()[t[0]][2]))
            if t[2] == 0 and len(f) > 6:
                f[6 + t[3] % (len(f) - 6)] = t[4]
            elif t[2] == 1:
                del f[max(3, t[3] % len(f)):]
            elif t[2] == 2:
                f[3] = t[4]
            else:
                f.insert(min(len(f), 6 + t[3] % 8), t[4])
            return bytes(f).hex()
        mf = st.tuples(st.integers(0, 9), st.one_of(st.integers(0, 12), st.integers(0, 249)), st.integers(0, 3), st.integers(0, 40), st.integers(0, 255)).map(mut)
        garbage = st.binary(max_size=20).map(lambda b: b.hex())

        def routed(t):
            # the same valid request, arriving through one of two routers with a source on a remote network
            name, svc, body, expect = seeds()[t[0]]
            apdu = RA.encode(dict(type=RA.CONF, seg=False, mor=False, sa=False, maxsegs=0, maxresp=5, invoke=t[1], service=svc, data=body))
            f = RN.encode(dict(msg=None, dadr=None, sadr=(t[2], bytes([t[3]])), er=True, prio=0, hop=None, data=apdu))
            return "%s@%d" % (f.hex(), 98 + t[4])
        rf = st.tuples(st.integers(0, 9), st.integers(0, 12), st.sampled_from([5, 6]), st.integers(1, 3), st.integers(0, 1)).map(routed)
        # any datagram with an intact NPCI revealing a source network, from either router
        reveal = st.tuples(st.sampled_from([5, 6]), st.integers(1, 3), st.integers(0, 1), st.binary(max_size=6)).map(
            lambda t: "%s@%d" % (RN.encode(dict(msg=None, dadr=None, sadr=(t[0], bytes([t[1]])), er=False, prio=0, hop=None, data=t[3])).hex(), 98 + t[2]))

        def segreq(t):
            # a request that allows a segmented answer of tiny segments, so that the device enters SEGMENTED_RESPONSE
            name, svc, body, expect = seeds()[6 + t[0] % 2]
            return LD.request_frame(t[1], svc, body, maxresp=0, maxsegs=t[2], sa=True).hex()
        sr = st.tuples(st.integers(0, 1), st.integers(0, 12), st.sampled_from([0, 0, 1, 7])).map(segreq)
        segack = st.tuples(st.integers(0, 12), st.one_of(st.integers(0, 12), st.integers(0, 255)), st.sampled_from([0, 1, 2, 16, 127, 255]), st.booleans(), st.booleans()).map(
            lambda t: LD.RN.encode(dict(msg=None, dadr=None, sadr=None, er=False, prio=0, hop=None,
                                        data=RA.encode(dict(type=RA.SEGACK, nak=t[3], srv=t[4], invoke=t[0], seq=t[1], win=t[2])))).hex())
        iam = st.tuples(st.sampled_from([99, 2, 7]), st.sampled_from([50, 128, 480, 1476, 0, 49, 70000]), st.sampled_from([0, 1, 2, 3, 0, 1, 2, 3, 4, 9, 255])).map(lambda t: LD.iam_frame(*t).hex())
        # the device learns (and re-learns) its network number from Network-Number-Is broadcasts of the routers
        nni = st.tuples(st.sampled_from([3, 4, 9]), st.integers(0, 1), st.integers(0, 1)).map(
            lambda t: "%s@%d*" % (RN.encode(dict(msg=0x13, vendor=None, dadr=None, sadr=None, er=False, prio=0, hop=None, data=RN.encode_msg(0x13, dict(net=t[0], flag=t[1])))).hex(), 98 + t[2]))
        vsa = st.tuples(st.integers(0, 9), st.integers(0, 12), st.sampled_from([0, 2, 7])).map(lambda t: LD.request_frame(t[1], seeds()[t[0]][1], seeds()[t[0]][2], sa=True, maxsegs=t[2]).hex())
        step = st.one_of(st.tuples(st.just("inject"), st.lists(st.one_of(vf, vsa, iam, nni, mf, mf, garbage, rf, rf, reveal, sr, segack, segack), min_size=1, max_size=5)).map(list),
                         st.tuples(st.just("adv"), st.sampled_from([0.0, 0.1, 0.5, 1.0, 2.1, 6.0])).map(list))
        # strangers' aborts / segment-acks: other invoke IDs from the requester's address, or its invoke ID from other addresses
        def stray(t):
            kind_, inv_, mac_, srv_, seq_ = t
            if kind_ == "abort":
                apdu = RA.encode(dict(type=RA.ABORT, srv=srv_, invoke=inv_, reason=9))
            else:
                apdu = RA.encode(dict(type=RA.SEGACK, nak=False, srv=srv_, invoke=inv_, seq=seq_, win=2))
            return "%s@%d" % (RN.encode(dict(msg=None, dadr=None, sadr=None, er=False, prio=0, hop=None, data=apdu)).hex(), mac_)
        who = st.one_of(st.tuples(st.sampled_from([101, 102, 103]), st.just(99)), st.tuples(st.sampled_from([100, 101, 7, 0]), st.sampled_from([98, 97])))
        strays = st.lists(st.tuples(st.integers(0, 6), st.tuples(st.sampled_from(["abort", "abort", "segack"]), who, st.booleans(), st.integers(0, 5)).map(
            lambda t: stray((t[0], t[1][0], t[1][1], t[2], t[3])))).map(list), min_size=1, max_size=4)
        dialog = st.tuples(st.just("dialog"), st.integers(0, 1), st.just(100), st.sampled_from([1, 2, 4]), strays).map(list)
        strat = st.lists(step, min_size=1, max_size=8).map(lambda s: dict(k="h", steps=s))
        ctx.for_all(strat, spec["n"])
        strat = st.tuples(st.lists(step, max_size=2), dialog, st.lists(step, max_size=2)).map(lambda t: dict(k="h", steps=t[0] + [t[1]] + t[2]))
        ctx.for_all(strat, max(50, spec["n"] // 5), salt=5)
        segreq = st.tuples(st.just("segreq"), st.integers(0, 1), st.just(110), st.sampled_from([1, 2, 3, 4, 8]), st.one_of(st.none(), st.integers(1, 6))).map(list)
        strat = st.tuples(st.lists(step, max_size=2), segreq, st.lists(step, max_size=2)).map(lambda t: dict(k="h", steps=t[0] + [t[1]] + t[2]))
        ctx.for_all(strat, max(50, spec["n"] // 5), salt=6)
        # a device that can only RECEIVE segments takes a segmented request all the same (its answers here fit one APDU)
        for si_ in (0, 1):
            for w_ in (1, 2, 4):
                for g_ in (None, 1, 2):
                    ctx.check(dict(k="h", steps=[["segreq", si_, 110, w_, g_]], dev_seg="segmentedReceive"))
    elif kind == "iam":
        # the requester has announced itself (I-Am with every segmentation support x max-APDU), then asks with and without the
        # segmented-response-accepted bit, for every kind of answer; a second I-Am may arrive between the requests
        n_ = 0
        for seg in (0, 1, 2, 3, 4, 200):
            for mx in (50, 128, 480, 1476) if seg < 4 else (50, 0, 70000):
                for again in (None, (seg + 1) % 4, seg):
                    steps = [["inject", [LD.iam_frame(99, mx, seg).hex()]]]
                    inv = 20
                    for si in range(10):
                        for sa in (True, False):
                            steps.append(["inject", [seed_frame(si, invoke=inv, sa=sa, maxsegs=0 if not sa else 2).hex()]])
                            inv += 1
                        if again is not None and si == 4:
                            steps.append(["inject", [LD.iam_frame(99, mx, again).hex()]])
                    ctx.check(dict(k="h", steps=steps))
                    # the same in one instant
                    ctx.check(dict(k="h", steps=[["inject", [x for st_ in steps for x in st_[1]]]]))
                    n_ += 2
        # network number learned, learned again, then requesters on remote networks behind either router
        def nni_(net, flag, mac):
            return "%s@%d*" % (RN.encode(dict(msg=0x13, vendor=None, dadr=None, sadr=None, er=False, prio=0, hop=None, data=RN.encode_msg(0x13, dict(net=net, flag=flag)))).hex(), mac)

        def routed_(si, inv, net, mac):
            name, svc, body, expect = seeds()[si]
            apdu = RA.encode(dict(type=RA.CONF, seg=False, mor=False, sa=False, maxsegs=0, maxresp=5, invoke=inv, service=svc, data=body))
            return "%s@%d" % (RN.encode(dict(msg=None, dadr=None, sadr=(net, b"\x07"), er=True, prio=0, hop=None, data=apdu)).hex(), mac)
        for nets_ in ([3], [3, 3], [3, 4], [3, 4, 3], [4, 9, 3]):
            for flag in (0, 1):
                for together in (False, True):
                    steps = [["inject", [nni_(n_x, flag, 98)]] for n_x in nets_]
                    reqs = [routed_(si, 30 + si, 5 + (si % 2), 98 + (si % 2)) for si in range(6)] + [seed_frame(1, invoke=40).hex()]
                    steps += [["inject", reqs]] if together else [["inject", [r_]] for r_ in reqs]
                    ctx.check(dict(k="h", steps=steps))
        ctx.mark_exhaustive("I-Am of the requester (4 segmentation values x 4 max-APDU sizes, repeated or changed mid-way) followed by every seed with and without segmented-response-accepted; network number learned 1..3 times, then routed requesters")
    elif kind == "link-mutate":
        dev = spec["dev"]
        ok = link_frame(seed_frame(1, invoke=31))                    # a valid ReadProperty that must be answered whatever stands next to it
        n_ = 0
        for si in (((0, 4) if spec["tier"] == "quick" else range(10)) if spec["part"] == "octets" else ()):
            frame = link_frame(seed_frame(si, invoke=9))
            muts = []
            for pos in range(min(len(frame), 12)):
                for v in (range(256) if pos < 6 or spec["tier"] != "quick" else (0x00, 0x01, 0x04, 0x08, 0x20, 0x24, 0x7F, 0x80, 0xFF, 0x0A, 0x81)):
                    if frame[pos] != v:
                        muts.append(frame[:pos] + bytes([v]) + frame[pos + 1:])
            for pos in range(12, len(frame)):
                for v in (0x00, 0x0F, 0x3E, 0x7F, 0x80, 0xFF, (frame[pos] + 1) & 0xFF, frame[pos] ^ 0x08):
                    if frame[pos] != v:
                        muts.append(frame[:pos] + bytes([v]) + frame[pos + 1:])
            for cut in range(len(frame)):
                muts.append(frame[:cut])
            for pos in range(len(frame) + 1):
                for v in (0x00, 0x81, 0x0A, 0xFF):
                    muts.append(frame[:pos] + bytes([v]) + frame[pos:])
            for m in muts:
                # alone, in front of a valid request in the same instant, and to the broadcast address
                ctx.check(dict(k="link", dev=dev, steps=[["inject", [m.hex(), ok.hex()]]]))
                n_ += 1
            for m in muts[::7]:
                ctx.check(dict(k="link", dev=dev, steps=[["inject", [ok.hex(), m.hex() + "*"]]]))
        # every function code x {valid request, garbage, empty} payload, with a right and a wrong length field
        for fn in (range(256) if spec["part"] == "functions" else ()):
            for payload in (seed_frame(0, invoke=10), b"", b"\x01\x00", bytes(range(6)) + seed_frame(0, invoke=10), b"\x00\x1e", bytes(10), bytes(20)):
                f = bytes([0x81, fn]) + (4 + len(payload)).to_bytes(2, "big") + payload
                ctx.check(dict(k="link", dev=dev, steps=[["inject", [f.hex(), ok.hex()]]]))
            f = bytes([0x81, fn, 0x00, 0x04])
            ctx.check(dict(k="link", dev=dev, steps=[["inject", [f.hex() + "*", ok.hex()]]]))
        for ln in (list(range(0, 40)) + [0xFFFF, 0x8000, 0x0100] if spec["part"] == "functions" else ()):
            frame = bytearray(link_frame(seed_frame(0, invoke=9)))
            frame[2:4] = ln.to_bytes(2, "big")
            ctx.check(dict(k="link", dev=dev, steps=[["inject", [bytes(frame).hex(), ok.hex()]]]))
        ctx.mark_exhaustive("link layer, %s device" % dev + (": all 256 values at each of the first 6 (thorough: 12) octets, every truncation, single insertions, every function code 0..255 x 7 payloads, length fields 0..39 of valid Original-Unicast frames, each next to a valid request in the same instant"))
    elif kind == "link-hist":
        from hypothesis import strategies as st
        dev = spec["dev"]
        vf = st.tuples(st.integers(0, 9), st.integers(0, 40)).map(lambda t: link_frame(seed_frame(t[0], invoke=t[1])).hex())
        raw = st.one_of(st.binary(max_size=24), st.binary(max_size=24).map(lambda b: b"\x81" + b))
        addr6 = st.one_of(st.sampled_from([bytes([192, 168, 1, 9, 0xBA, 0xC0]), bytes([192, 168, 1, 2, 0xBA, 0xC0]), bytes([192, 168, 1, 255, 0xBA, 0xC0]), bytes(6), b"\xff" * 6]), st.binary(min_size=6, max_size=6))
        u16 = st.one_of(st.sampled_from([0, 1, 5, 30, 65535]), st.integers(0, 65535))
        npdu = st.one_of(st.tuples(st.integers(0, 9), st.integers(41, 60)).map(lambda t: seed_frame(t[0], invoke=t[1])), st.binary(max_size=12),
                         st.just(RN.encode(dict(msg=None, dadr=("gb", None, b""), sadr=None, er=False, prio=0, hop=255, data=bytes([0x10, 0x08])))))      # a global Who-Is
        msg = st.one_of(
            u16.map(lambda c: RB.encode(0, dict(code=c))),
            st.lists(st.tuples(addr6, st.integers(0, 0xFFFFFFFF)), max_size=3).flatmap(lambda t: st.sampled_from([1, 3]).map(lambda fn: RB.encode(fn, dict(bdt=t)))),
            st.sampled_from([2, 6]).map(lambda fn: RB.encode(fn, dict())),
            st.tuples(addr6, npdu).map(lambda t: RB.encode(4, dict(addr=t[0], data=t[1]))),
            u16.map(lambda c: RB.encode(5, dict(ttl=c))),
            st.lists(st.tuples(addr6, u16, u16), max_size=3).map(lambda t: RB.encode(7, dict(fdt=t))),
            addr6.map(lambda a: RB.encode(8, dict(addr=a))),
            st.tuples(st.sampled_from([9, 10, 11]), npdu).map(lambda t: RB.encode(t[0], dict(data=t[1]))))

        def mutate(t):
            f = bytearray(t[0])
            if not f:
                return bytes(f)
            if t[1] == 0:
                f[t[2] % len(f)] = t[3]
            elif t[1] == 1:
                del f[t[2] % len(f):]
            elif t[1] == 2:
                f.insert(t[2] % (len(f) + 1), t[3])
            else:
                f += bytes([t[3]]) * (1 + t[2] % 3)
            return bytes(f)
        mutated = st.tuples(msg, st.integers(0, 3), st.integers(0, 60), st.integers(0, 255)).map(mutate)
        dgram = st.one_of(raw, msg, msg, mutated, mutated).flatmap(lambda b: st.sampled_from(["", "", "*"]).map(lambda sfx: bytes(b).hex() + sfx))
        step = st.one_of(st.tuples(st.just("inject"), st.lists(st.one_of(vf, dgram, dgram), min_size=1, max_size=5)).map(list),
                         st.tuples(st.just("adv"), st.sampled_from([0.0, 0.5, 1.0, 2.1, 6.0, 31.0, 61.0])).map(list))
        ctx.for_all(st.lists(step, min_size=1, max_size=8).map(lambda s_: dict(k="link", dev=dev, steps=s_)), spec["n"])
