"""C08 -- network-layer headers and messages encode and decode faithfully."""
import itertools
from ..runner import Verdict
from ..ref import npci as R

ID = "C08"
LEVEL = "exploration"
RULE = ("Enumerated: {application, every message type 0..255} x DADR shape {absent, remote station with 1/2/6/7/255-octet "
        "address, remote broadcast, global} x SADR shape {absent, station 1/2/6/7/255 octets} x expecting-reply x priority 0..3 x "
        "hop {0,1,254,255} x {empty, patterned payload}; all 256 control octets completed to well-formed frames by the reference "
        "and cut at every prefix; all 256 version octets; all octet strings of length <= 2 (<= 3 thorough); Hypothesis-generated "
        "parameters of the 12 message classes (network lists 0..20, routing tables 0..5 entries, port-info 0..255) and "
        "random/mutated frames. Oracle: independent clause-6.2 reference codec, both directions, accept/reject agreement "
        "(DecodingError exactly when the reference rejects), field-by-field comparison, message parameters round trip and "
        "re-encode. Non-trivial: header with DADR or SADR or a network message; decoded string that passes version check; "
        "message with a non-empty list/table. Distinct by octets."
        " One reduced copy of a generated shard runs with the library's debug tracing switched on (label tracing-on).")
ASSUMPTIONS = [
    "bpverif/ref/npci.py transcribes clause 6.2.2 / 6.4 correctly",
    "reserved control bits 0x40 and 0x10 are ignored on receipt by both library and reference",
    "DNET=0xFFFF with DLEN>0 is not in the property's list of forbidden headers: counted, not judged",
    "trailing octets after a fixed-size message body are ignored by both sides",
]

_lib = None


def lib():
    global _lib
    if _lib is None:
        from bacpypes import npdu as N
        from bacpypes.pdu import PDU, RemoteStation, RemoteBroadcast, GlobalBroadcast, Address
        from bacpypes.errors import DecodingError
        _lib = (N, PDU, RemoteStation, RemoteBroadcast, GlobalBroadcast, Address, DecodingError)
    return _lib


def pat(n, salt=0):
    return bytes((i * 13 + 5 + salt) & 0xFF for i in range(n))


def addr_view(a):
    """library Address -> reference tuple"""
    N, PDU, RS, RB, GB, Address, DE = lib()
    if a is None:
        return None
    if a.addrType == Address.remoteStationAddr:
        return ("rs", a.addrNet, bytes(a.addrAddr))
    if a.addrType == Address.remoteBroadcastAddr:
        return ("rb", a.addrNet)
    if a.addrType == Address.globalBroadcastAddr:
        return ("gb",)
    return ("other", a.addrType)


def mk_addr(d):
    N, PDU, RS, RB, GB, Address, DE = lib()
    if d is None:
        return None
    if d[0] == "rs":
        return RS(d[1], bytes(d[2]))
    if d[0] == "rb":
        return RB(d[1])
    return GB()


def check_encode(h):
    """h as for ref.encode"""
    N, PDU, RS, RB, GB, Address, DE = lib()
    shape = "%s/%s/%s" % ("app" if h["msg"] is None else ("vendor" if h["msg"] >= 0x80 else "net"),
                          h["dadr"][0] if h["dadr"] else "-", "s" if h["sadr"] else "-")
    try:
        n = N.NPDU()
        n.npduDADR = mk_addr(h["dadr"])
        n.npduSADR = RS(h["sadr"][0], bytes(h["sadr"][1])) if h["sadr"] else None
        n.npduHopCount = h["hop"] if h["dadr"] else None
        n.npduNetMessage = h["msg"]
        n.npduVendorID = h["vendor"] if (h["msg"] is not None and h["msg"] >= 0x80) else None
        n.pduExpectingReply = h["er"]
        n.pduNetworkPriority = h["prio"]
        n.pduData = bytearray(h["data"])
        pdu = PDU()
        n.encode(pdu)
        octets = bytes(pdu.pduData)
    except Exception as err:
        return [("enc:%s:raised:%s" % (shape, type(err).__name__), "encode of %r raised %r" % (h, err))]
    want = R.encode(h)
    if octets != want:
        return [("enc:%s:differs" % shape, "header %r: library %s, clause 6.2 layout %s" % (h, octets[:40].hex(), want[:40].hex()))]
    # decode restores the fields
    try:
        m = N.NPDU()
        m.decode(PDU(octets))
    except Exception as err:
        return [("enc:%s:decode-raised:%s" % (shape, type(err).__name__), "decode of own encoding %s raised %r" % (octets[:40].hex(), err))]
    fails = []
    got = dict(dadr=addr_view(m.npduDADR), sadr=addr_view(m.npduSADR), hop=m.npduHopCount, msg=m.npduNetMessage,
               vendor=m.npduVendorID, er=bool(m.pduExpectingReply), prio=m.pduNetworkPriority, data=bytes(m.pduData))
    exp = dict(dadr=tuple(h["dadr"]) if h["dadr"] else None, sadr=("rs", h["sadr"][0], bytes(h["sadr"][1])) if h["sadr"] else None,
               hop=h["hop"] if h["dadr"] else None, msg=h["msg"],
               vendor=h["vendor"] if (h["msg"] is not None and h["msg"] >= 0x80) else None,
               er=bool(h["er"]), prio=h["prio"], data=bytes(h["data"]))
    for k in exp:
        if got[k] != exp[k]:
            fails.append(("enc:%s:field-not-restored:%s" % (shape, k), "header %r -> %s -> %s=%r" % (h, octets[:40].hex(), k, got[k])))
    return fails


def check_decode(b):
    """arbitrary octets through NPDU.decode (and the message class) against the reference"""
    N, PDU, RS, RB, GB, Address, DE = lib()
    b = bytes(b)
    try:
        want = R.decode(b)
        why = None
    except R.Reject as rj:
        want, why = None, str(rj)
    try:
        m = N.NPDU()
        m.decode(PDU(b))
    except DE:
        if want is not None and not want["unspecified"]:
            return [("dec:refused-valid", "%s is a well-formed header but was refused" % b[:40].hex())], want
        return [], want
    except Exception as err:
        if want is not None and want["unspecified"]:
            return [], want
        return [("dec:other-exception:%s" % type(err).__name__, "decode of %s raised %r (not DecodingError)" % (b[:40].hex(), err))], want
    if want is None:
        return [("dec:accepted-invalid:%s" % why.split()[0], "%s accepted although the reference rejects it (%s)" % (b[:40].hex(), why))], want
    if want["unspecified"]:
        return [], want
    fails = []
    got = dict(dadr=addr_view(m.npduDADR), sadr=addr_view(m.npduSADR), hop=m.npduHopCount, msg=m.npduNetMessage,
               vendor=m.npduVendorID, er=bool(m.pduExpectingReply), prio=m.pduNetworkPriority, data=bytes(m.pduData),
               control=m.npduControl)
    exp = dict(want)
    exp.pop("unspecified")
    if exp["sadr"] is not None:
        exp["sadr"] = ("rs",) + tuple(exp["sadr"])
    for k in exp:
        if got[k] != exp[k]:
            fails.append(("dec:field:%s" % k, "%s: %s=%r, clause 6.2 says %r" % (b[:40].hex(), k, got[k], exp[k])))
    if fails:
        return fails, want
    # message body
    mt = want["msg"]
    if mt in R.MSG_NAMES:
        name = R.MSG_NAMES[mt]
        try:
            wp = R.decode_msg(mt, want["data"])
        except R.Reject:
            wp = None
        klass = N.npdu_types.get(mt)
        if klass is None or klass.__name__ != name:
            return [("msg:%s:not-registered" % name, "message type %d resolves to %r" % (mt, klass))], want
        try:
            x = klass()
            x.decode(m)
            gp = msg_params(mt, x)
        except DE:
            gp = None
        except Exception as err:
            return [("msg:%s:decode-raised:%s" % (name, type(err).__name__), "body %s raised %r" % (want["data"][:40].hex(), err))], want
        if (gp is None) != (wp is None):
            fails.append(("msg:%s:%s" % (name, "refused-valid" if gp is None else "accepted-truncated"),
                          "body %s: library %r, reference %r" % (want["data"][:40].hex(), gp, wp)))
        elif gp != wp:
            fails.append(("msg:%s:params" % name, "body %s: library %r, reference %r" % (want["data"][:40].hex(), gp, wp)))
    return fails, want


def msg_params(mt, x):
    if mt == 0:
        return dict(net=x.wirtnNetwork)
    if mt == 1:
        return dict(nets=list(x.iartnNetworkList))
    if mt == 2:
        return dict(net=x.icbrtnNetwork, perf=x.icbrtnPerformanceIndex)
    if mt == 3:
        return dict(reason=x.rmtnRejectionReason, dnet=x.rmtnDNET)
    if mt == 4:
        return dict(nets=list(x.rbtnNetworkList))
    if mt == 5:
        return dict(nets=list(x.ratnNetworkList))
    if mt == 6:
        return dict(table=[(e.rtDNET, e.rtPortID, bytes(e.rtPortInfo)) for e in x.irtTable])
    if mt == 7:
        return dict(table=[(e.rtDNET, e.rtPortID, bytes(e.rtPortInfo)) for e in x.irtaTable])
    if mt == 8:
        return dict(dnet=x.ectnDNET, time=x.ectnTerminationTime)
    if mt == 9:
        return dict(dnet=x.dctnDNET)
    if mt == 0x12:
        return dict()
    if mt == 0x13:
        return dict(net=x.nniNet, flag=x.nniFlag)


def build_msg(mt, p):
    N = lib()[0]
    if mt == 0:
        return N.WhoIsRouterToNetwork(p["net"])
    if mt == 1:
        return N.IAmRouterToNetwork(list(p["nets"]))
    if mt == 2:
        return N.ICouldBeRouterToNetwork(p["net"], p["perf"])
    if mt == 3:
        return N.RejectMessageToNetwork(p["reason"], p["dnet"])
    if mt == 4:
        return N.RouterBusyToNetwork(list(p["nets"]))
    if mt == 5:
        return N.RouterAvailableToNetwork(list(p["nets"]))
    if mt in (6, 7):
        tab = [N.RoutingTableEntry(d, port, bytes(info)) for d, port, info in p["table"]]
        return N.InitializeRoutingTable(tab) if mt == 6 else N.InitializeRoutingTableAck(tab)
    if mt == 8:
        return N.EstablishConnectionToNetwork(p["dnet"], p["time"])
    if mt == 9:
        return N.DisconnectConnectionToNetwork(p["dnet"])
    if mt == 0x12:
        return N.WhatIsNetworkNumber()
    if mt == 0x13:
        return N.NetworkNumberIs(p["net"], p["flag"])


def check_msg(mt, p, h):
    """typed message -> NPDU -> octets, compared with the reference; decoded back to the same parameters"""
    N, PDU, RS, RB, GB, Address, DE = lib()
    name = R.MSG_NAMES[mt]
    try:
        x = build_msg(mt, p)
        x.npduDADR = mk_addr(h["dadr"])
        x.npduSADR = RS(h["sadr"][0], bytes(h["sadr"][1])) if h["sadr"] else None
        x.npduHopCount = h["hop"] if h["dadr"] else None
        x.pduExpectingReply = h["er"]
        x.pduNetworkPriority = h["prio"]
        n = N.NPDU()
        x.encode(n)
        pdu = PDU()
        n.encode(pdu)
        octets = bytes(pdu.pduData)
    except Exception as err:
        return [("msg:%s:encode-raised:%s" % (name, type(err).__name__), "encode of %r raised %r" % (p, err))]
    want = R.encode(dict(h, msg=mt, vendor=None, data=R.encode_msg(mt, p)))
    if octets != want:
        return [("msg:%s:encode-differs" % name, "params %r: library %s, reference %s" % (p, octets[:48].hex(), want[:48].hex()))]
    fails, _ = check_decode(octets)
    if fails:
        return fails
    # the decoded message carries exactly the generated parameters and re-encodes identically
    try:
        m = N.NPDU()
        m.decode(PDU(octets))
        y = N.npdu_types[m.npduNetMessage]()
        y.decode(m)
        gp = msg_params(mt, y)
        n2 = N.NPDU()
        y.encode(n2)
        p2 = PDU()
        n2.encode(p2)
    except Exception as err:
        return [("msg:%s:roundtrip-raised:%s" % (name, type(err).__name__), "round trip of %r raised %r" % (p, err))]
    exp = dict(p)
    if "table" in exp:
        exp["table"] = [(d, port, bytes(info)) for d, port, info in exp["table"]]
    if "nets" in exp:
        exp["nets"] = list(exp["nets"])
    if gp != exp:
        fails.append(("msg:%s:params-not-restored" % name, "sent %r, decoded %r" % (exp, gp)))
    if bytes(p2.pduData) != octets:
        fails.append(("msg:%s:reencode-differs" % name, "%s re-encoded as %s" % (octets[:48].hex(), bytes(p2.pduData)[:48].hex())))
    return fails


# ---- JSON <-> header -----------------------------------------------------

def h_from_json(j):
    d = j.get("dadr")
    if d is not None:
        d = tuple(d[:2]) + (bytes.fromhex(d[2]),) if d[0] == "rs" else tuple(d)
    s = j.get("sadr")
    if s is not None:
        s = (s[0], bytes.fromhex(s[1]))
    return dict(msg=j.get("msg"), vendor=j.get("vendor", 0), dadr=d, sadr=s, er=bool(j.get("er")), prio=j.get("prio", 0),
                hop=j.get("hop", 255), data=bytes.fromhex(j.get("data", "")))


def h_to_json(h):
    d = h["dadr"]
    if d is not None:
        d = [d[0], d[1], bytes(d[2]).hex()] if d[0] == "rs" else list(d)
    s = h["sadr"]
    if s is not None:
        s = [s[0], bytes(s[1]).hex()]
    return dict(msg=h["msg"], vendor=h["vendor"], dadr=d, sadr=s, er=h["er"], prio=h["prio"], hop=h["hop"], data=bytes(h["data"]).hex())


def p_from_json(mt, p):
    p = dict(p)
    if "table" in p:
        p["table"] = [(d, port, bytes.fromhex(info)) for d, port, info in p["table"]]
    return p


def judge(case):
    k = case["k"]
    if k == "enc":
        h = h_from_json(case["h"])
        return Verdict(check_encode(h), bool(h["dadr"] or h["sadr"] or h["msg"] is not None), ("enc",))
    if k == "dec":
        b = bytes.fromhex(case["b"])
        fails, want = check_decode(b)
        labels = ["dec:accepted" if want else "dec:rejected"]
        if want and want["unspecified"]:
            labels.append("dec:unspecified-skipped")
        return Verdict(fails, len(b) >= 2 and b[0] == 1, labels)
    if k == "msg":
        p = p_from_json(case["mt"], case["p"])
        nt = bool(p.get("nets") or p.get("table")) or case["mt"] not in (1, 4, 5, 6, 7)
        return Verdict(check_msg(case["mt"], p, h_from_json(case["h"])), nt, ("msg:" + R.MSG_NAMES[case["mt"]],))
    raise ValueError(k)


# ---- enumeration -----------------------------------------------------------

NETS = (1, 255, 256, 65534, 2, 4660)
ALENS = (1, 2, 6, 7, 255)
VENDORS = (0, 1, 255, 256, 65535)


def header_space(msgs):
    i = 0
    for msg in msgs:
        dshapes = [None] + [("rs", L) for L in ALENS] + [("rb",), ("gb",)]
        sshapes = [None] + list(ALENS)
        for dsh, ssh, er, prio, hop in itertools.product(dshapes, sshapes, (False, True), range(4), (0, 1, 254, 255)):
            i += 1
            if dsh is None:
                if hop != 255:
                    continue          # hop count is not encoded without DADR: one representative only
                d = None
            elif dsh[0] == "rs":
                d = ("rs", NETS[i % len(NETS)], pat(dsh[1], i))
            elif dsh[0] == "rb":
                d = ("rb", NETS[i % len(NETS)])
            else:
                d = ("gb",)
            s = None if ssh is None else (NETS[(i // 7) % len(NETS)], pat(ssh, i + 1))
            for data in (b"", pat(1 + i % 7, 9)):
                yield dict(msg=msg, vendor=VENDORS[i % 5], dadr=d, sadr=s, er=er, prio=prio, hop=hop, data=data)


def control_frames():
    """every control octet completed to a well-formed frame, and every proper prefix of it; every version octet"""
    for c in range(256):
        h = dict(msg=(0x85 if c & 1 else 0x02) if c & 0x80 else None, vendor=0x1234,
                 dadr=("rs", 300, pat(3)) if c & 0x20 else None, sadr=(77, pat(2, 1)) if c & 0x08 else None,
                 er=bool(c & 4), prio=c & 3, hop=200, data=pat(4, 2))
        frame = bytearray(R.encode(h))
        frame[1] = c                      # includes the reserved bits
        frame = bytes(frame)
        for n in range(len(frame) + 1):
            yield frame[:n]
        # forbidden sources
        if c & 0x08:
            for bad in (dict(h, sadr=(0xFFFF, pat(2))), dict(h, sadr=(77, b""))):
                f2 = bytearray(R.encode(bad))
                f2[1] = c
                yield bytes(f2)
    for v in range(256):
        yield bytes([v, 0x00, 0x10, 0x08])
        yield bytes([v, 0x80, 0x12])


def plan(tier, seed):
    specs = []
    chunks = [[None] + list(range(0, 16))] + [list(range(a, a + 16)) for a in range(16, 256, 16)]
    if tier == "quick":
        # quick: every message type still visited, in 16 shards
        pass
    for i, ch in enumerate(chunks):
        specs.append(dict(name="enc-%d" % i, kind="enc", msgs=ch))
    specs.append(dict(name="control", kind="control"))
    specs.append(dict(name="strings<=2", kind="strings", length=2))
    if tier == "thorough":
        for hi in range(16):
            specs.append(dict(name="strings3-%x" % hi, kind="strings", length=3, first_hi=hi))
    nmsg = 2500 if tier == "quick" else 20000
    for i in range(4):
        specs.append(dict(name="messages-%d" % i, kind="msg", n=nmsg))
    for i in range(4):
        specs.append(dict(name="random-%d" % i, kind="random", n=4000 if tier == "quick" else 40000))
    # once more with the library's debug tracing switched on
    specs.append(dict(name="tracing-enc", kind="enc", msgs=chunks[0], tracing=True))
    specs.append(dict(name="tracing-control", kind="control", tracing=True))
    specs.append(dict(name="tracing-messages", kind="msg", n=800 if tier == "quick" else 8000, tracing=True))
    specs.append(dict(name="tracing-random", kind="random", n=1500 if tier == "quick" else 15000, tracing=True))
    return specs


def strategies():
    from hypothesis import strategies as st
    net = st.one_of(st.sampled_from([0, 1, 255, 256, 65534, 65535]), st.integers(0, 65535))
    octet = st.one_of(st.sampled_from([0, 1, 127, 128, 255]), st.integers(0, 255))
    nets = st.lists(net, max_size=20)
    info = st.one_of(st.sampled_from([0, 1, 2, 255]), st.integers(0, 40)).flatmap(lambda n: st.binary(min_size=n, max_size=n))
    table = st.lists(st.tuples(net, octet, info.map(lambda b: b.hex())).map(list), max_size=5)
    params = {
        0: st.one_of(st.none(), net).map(lambda n: dict(net=n)),
        1: nets.map(lambda l: dict(nets=l)), 4: nets.map(lambda l: dict(nets=l)), 5: nets.map(lambda l: dict(nets=l)),
        2: st.tuples(net, octet).map(lambda t: dict(net=t[0], perf=t[1])),
        3: st.tuples(octet, net).map(lambda t: dict(reason=t[0], dnet=t[1])),
        6: table.map(lambda t: dict(table=t)), 7: table.map(lambda t: dict(table=t)),
        8: st.tuples(net, octet).map(lambda t: dict(dnet=t[0], time=t[1])),
        9: net.map(lambda n: dict(dnet=n)),
        0x12: st.just(dict()),
        0x13: st.tuples(net, octet).map(lambda t: dict(net=t[0], flag=t[1])),
    }
    anet = st.one_of(st.sampled_from([0, 1, 65534]), st.integers(0, 65534))
    mac = st.one_of(st.sampled_from([1, 2, 6, 7, 255]), st.integers(1, 20)).flatmap(lambda n: st.binary(min_size=n, max_size=n))
    dadr = st.one_of(st.none(), st.tuples(anet, mac).map(lambda t: ["rs", t[0], t[1].hex()]),
                     anet.map(lambda n: ["rb", n]), st.just(["gb"]))
    sadr = st.one_of(st.none(), st.tuples(anet, mac).map(lambda t: [t[0], t[1].hex()]))
    hdr = st.fixed_dictionaries(dict(dadr=dadr, sadr=sadr, er=st.booleans(), prio=st.integers(0, 3), hop=octet))
    msg_case = st.sampled_from(sorted(params)).flatmap(
        lambda mt: st.tuples(params[mt], hdr).map(lambda t: dict(k="msg", mt=mt, p=t[0], h=t[1])))
    return msg_case, hdr, params


def _mutate(b, op, pos, val):
    b = bytearray(b)
    if not b:
        return bytes(b)
    pos %= len(b)
    if op == 0:
        b[pos] = val
    elif op == 1:
        b.insert(pos, val)
    elif op == 2:
        del b[pos]
    elif op == 3:
        del b[pos:]
    else:
        b[pos] ^= 1 << (val & 7)
    return bytes(b)


def run(spec, ctx):
    kind = spec["kind"]
    if kind == "enc":
        n = nt = 0
        sample = None
        for h in header_space(spec["msgs"]):
            fails = check_encode(h)
            n += 1
            if h["dadr"] or h["sadr"] or h["msg"] is not None:
                nt += 1
                if sample is None and h["dadr"] and h["sadr"] and len(h["dadr"]) == 3 and len(h["dadr"][2]) < 8 and len(h["sadr"][1]) < 8:
                    sample = dict(k="enc", h=h_to_json(h))
            for s, m in fails:
                ctx.fail(dict(k="enc", h=h_to_json(h)), s, m)
        ctx.bulk(n, nt, "enc", sample)
        ctx.mark_exhaustive("header cross product for message types %r..%r" % (spec["msgs"][0], spec["msgs"][-1]))
    elif kind == "control":
        n = nt = 0
        for b in control_frames():
            fails, want = check_decode(b)
            ctx.trail.append(b)
            n += 1
            nt += 1 if len(b) >= 2 else 0
            for s, m in fails:
                ctx.fail(dict(k="dec", b=b.hex()), s, m, trail_case=lambda x: dict(k="dec", b=x.hex()))
        ctx.bulk(n, nt, "dec:control", dict(k="dec", b="01a8004d020d1285123412"))
        ctx.mark_exhaustive("all 256 control octets x every prefix; all 256 version octets")
    elif kind == "strings":
        L = spec["length"]
        n = nt = 0
        if "first_hi" in spec:
            # version must be 1 to get anywhere: enumerate 01 xx xx fully in the slice, others by first octet
            space = (bytes((a, b1, c)) for a in range(spec["first_hi"] * 16, spec["first_hi"] * 16 + 16)
                     for b1 in range(256) for c in range(256))
        else:
            space = itertools.chain([b""], (bytes(t) for ln in range(1, L + 1) for t in itertools.product(range(256), repeat=ln)))
        for b in space:
            fails, want = check_decode(b)
            ctx.trail.append(b)
            n += 1
            if len(b) >= 2 and b[0] == 1:
                nt += 1
            for s, m in fails:
                ctx.fail(dict(k="dec", b=b.hex()), s, m, trail_case=lambda x: dict(k="dec", b=x.hex()))
        ctx.bulk(n, nt, "dec:short", dict(k="dec", b="0120"))
        ctx.mark_exhaustive("all octet strings of length %s" % ("3 (slice)" if "first_hi" in spec else "<= %d" % L))
    elif kind == "msg":
        msg_case, hdr, params = strategies()
        ctx.for_all(msg_case, spec["n"])
    elif kind == "random":
        from hypothesis import strategies as st
        msg_case, hdr, params = strategies()

        def frame_of(c):
            return R.encode(dict(h_from_json(c["h"]), msg=c["mt"], vendor=None, data=R.encode_msg(c["mt"], p_from_json(c["mt"], c["p"]))))
        valid = msg_case.map(frame_of)
        mutated = st.builds(_mutate, valid, st.integers(0, 4), st.integers(0, 60), st.integers(0, 255))
        rnd = st.binary(max_size=40).map(lambda b: b"\x01" + b)
        strat = st.one_of(mutated, rnd, st.binary(max_size=24)).map(lambda b: dict(k="dec", b=bytes(b).hex()))
        ctx.for_all(strat, spec["n"])
