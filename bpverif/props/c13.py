"""C13 -- B/IP broadcasts reach every node once; foreign registrations expire on time."""
from ..runner import Verdict, watchdog, Stall
from .. import clock as VC
from .. import boot
from ..ref import bvlc as RB

ID = "C13"
LEVEL = "exploration"
RULE = ("BipLab: real BIPSimple / BIPBBMD / BIPForeign layers over real AnnexJCodecs on virtual IP subnets joined by an IP router, "
        "under virtual time; a recorder sits directly above each node's B/IP layer. Hypothesis draws layouts: 1..5 /24 subnets, "
        "0..1 BBMD each, 0..3 ordinary nodes each, 0..4 foreign devices on any subnet other than their registrar's (see assumptions) registered with any BBMD, TTL 1..300 "
        "(edge values weighted); distribution tables in which every BBMD lists itself plus all (full) or a generated subset (partial) "
        "of the others, with all-ones masks (two-hop) or subnet masks (directed broadcast). Timelines: a broadcast from any node "
        "(ordinary, BBMD, foreign) at any instant, time advances in fractions and whole seconds across every registration / "
        "renewal / expiry edge, cutting a foreign device's renewals, unregister, Delete-FDT-Entry by BVLL message, "
        "Read-FDT. Oracle = Annex J model over the TABLES: a broadcast must be handed above the B/IP layer of every node the "
        "tables make reachable exactly once, never to its originator, with the originator's address as source (with full tables: "
        "every other node); a foreign device is served throughout [t_ack, t_ack+TTL], may or may not be served until "
        "t_ack+TTL+31 s, and must not be served or listed afterwards; renewal frames leave it at most TTL apart; after an "
        "acknowledged Delete-FDT-Entry it is not served by that BBMD until it registers again; after unregister() it stops within "
        "the grace period. Non-trivial: broadcast crossing >= 1 BBMD or involving a foreign device. Distinct by (layout, timeline)."
        " Also: subnets of different prefix lengths; broadcasts in the very instant of a renewal."
        " One reduced copy of a generated shard runs with the library's debug tracing switched on (label tracing-on).")
ASSUMPTIONS = [
    "a foreign device never sits on the subnet of the BBMD it registers with, and sits next to another BBMD only when the tables use two-hop (all-ones) masks: a foreign device that can hear its registrar's own broadcast datagrams gets Annex J duplicates by design",
    "the grace constant is not fixed by the statement (the library uses 5 s in the BBMD and 30 s in the device; Annex J says 30): only the two-sided window is judged",
    "whether a BBMD must refuse Distribute-Broadcast from an address not (or no longer) in its FDT is not in the statement: measured, not asserted",
    "ties at the exact instant of an expiry tick or a renewal accept either order",
]

_lib = None


class _L(object):
    pass


def lib():
    global _lib
    if _lib is None:
        L = _L()
        VC.install(0.0)
        from bacpypes import vlan, bvllservice as BS, bvll as BV
        from bacpypes.comm import Client, Server, bind
        from bacpypes.pdu import Address, LocalBroadcast, PDU, unpack_ip_addr
        L.vlan, L.BS, L.BV, L.Client, L.Server, L.bind, L.Address, L.LocalBroadcast, L.PDU = vlan, BS, BV, Client, Server, bind, Address, LocalBroadcast, PDU

        class Mux(Client, Server):
            """what UDPMultiplexer does, without sockets: Address <-> (ip, port) tuples on an IPNode"""

            def __init__(self, addr, network, lab):
                Client.__init__(self)
                Server.__init__(self)
                self.address = addr
                self.lab = lab
                self.cut_register = False
                self.node = vlan.IPNode(addr, network)
                bind(self, self.node)

            def indication(self, pdu):
                if pdu.pduDestination.addrType == Address.localBroadcastAddr:
                    dest = self.address.addrBroadcastTuple
                elif pdu.pduDestination.addrType == Address.localStationAddr:
                    dest = unpack_ip_addr(pdu.pduDestination.addrAddr)
                else:
                    raise RuntimeError("invalid destination address type")
                data = bytes(pdu.pduData)
                lost = self.cut_register and len(data) > 1 and data[1] == 5
                self.lab.datagrams.append((VC.clk.now, self.address.addrTuple, dest, data, lost))
                if lost:
                    return                       # the harness owns the medium: this device's registrations are lost from now on
                self.request(PDU(pdu, source=self.address.addrTuple, destination=dest))

            def confirmation(self, pdu):
                src = Address(pdu.pduSource)
                if pdu.pduDestination == self.address.addrBroadcastTuple:
                    dest = LocalBroadcast()
                else:
                    dest = Address(pdu.pduDestination)
                self.response(PDU(pdu, source=src, destination=dest))
        L.Mux = Mux

        class Recorder(Client):
            def __init__(self):
                Client.__init__(self)
                self.got = []

            def confirmation(self, pdu):
                self.got.append((VC.clk.now, bytes(pdu.pduData), pdu.pduSource, pdu.pduDestination))
        L.Recorder = Recorder

        class Manager(Client):
            """sits above an AnnexJCodec: sends BVLL management messages, records the answers"""

            def __init__(self):
                Client.__init__(self)
                self.got = []

            def confirmation(self, pdu):
                self.got.append(pdu)
        L.Manager = Manager
        _lib = L
    return _lib


class BipLab(object):
    def __init__(self, layout):
        L = lib()
        VC.reset(0.0)
        boot.swallowed.take()
        self.layout = layout
        self.datagrams = []
        self.router = L.vlan.IPRouter()
        self.subnets = []
        self.nodes = []            # dict(kind, subnet, addr, bip, rec, mux)
        def ip(si, h):
            # subnets need not share one prefix length: a "wide" subnet is a /16
            if layout["subnets"][si].get("wide"):
                return "10.%d.0.%d/16" % (si + 1, h)
            return "192.168.%d.%d/24" % (si + 1, h)
        self.ip = ip
        for si, sn in enumerate(layout["subnets"]):
            net = L.vlan.IPNetwork("sub%d" % si)
            self.router.add_network(L.Address(ip(si, 1)), net)
            self.subnets.append(net)
        host = {}

        def new_addr(si):
            host[si] = host.get(si, 1) + 1
            return L.Address(ip(si, host[si]))
        # BBMDs first so that their addresses are known
        self.bbmd_of = {}
        for si, sn in enumerate(layout["subnets"]):
            if sn["bbmd"]:
                addr = new_addr(si)
                bip = L.BS.BIPBBMD(addr)
                self._stack("bbmd", si, addr, bip)
                self.bbmd_of[si] = len(self.nodes) - 1
        for si, sn in enumerate(layout["subnets"]):
            for j in range(sn["simple"]):
                addr = new_addr(si)
                self._stack("simple", si, addr, L.BS.BIPSimple())
        # distribution tables
        bb = sorted(self.bbmd_of)
        for si in bb:
            me = self.nodes[self.bbmd_of[si]]
            peers = [si] + [p for p in bb if p != si and (layout["bdt"] == "full" or [si, p] in layout["bdt"] or (si, p) in [tuple(x) for x in layout["bdt"]])]
            for p in peers:
                a = self.nodes[self.bbmd_of[p]]["addr"]
                if layout["mask"] == "two-hop":
                    entry = L.Address("%s/32:%d" % (a.addrTuple[0], a.addrTuple[1]))
                else:
                    entry = L.Address("%s/%d:%d" % (a.addrTuple[0], 16 if layout["subnets"][p].get("wide") else 24, a.addrTuple[1]))
                me["bip"].add_peer(entry)
            me["peers"] = peers
        # foreign devices
        for fi, fd in enumerate(layout["fds"]):
            addr = new_addr(fd["home"])
            bip = L.BS.BIPForeign()
            self._stack("foreign", fd["home"], addr, bip)
            n = self.nodes[-1]
            n["fd"] = fi
            n["reg_with"] = fd["bbmd"]
            n["ttl"] = fd["ttl"]
            bip.register(self.nodes[self.bbmd_of[fd["bbmd"]]]["addr"], fd["ttl"])
        # a management station on subnet 0
        self.mgr = L.Manager()
        self.mgr_addr = L.Address(ip(0, 250))
        codec = L.BS.AnnexJCodec()
        self.mgr_mux = L.Mux(self.mgr_addr, self.subnets[0], self)
        L.bind(self.mgr, codec, self.mgr_mux)

    def _stack(self, kind, si, addr, bip):
        L = lib()
        rec = L.Recorder()
        codec = L.BS.AnnexJCodec()
        mux = L.Mux(addr, self.subnets[si], self)
        L.bind(rec, bip, codec, mux)
        self.nodes.append(dict(kind=kind, subnet=si, addr=addr, bip=bip, rec=rec, mux=mux))

    def broadcast(self, ni, token):
        L = lib()
        self.nodes[ni]["rec"].request(L.PDU(token, destination=L.LocalBroadcast()))

    def advance(self, dt):
        VC.pump(VC.clk.now + dt, max_iter=500000)


# ---- Annex J model over the tables ----------------------------------------------------------------------------------------------

def reach_via_bbmd(lab, bsi, exclude_fd=None):
    """nodes served when the BBMD of subnet bsi distributes a broadcast that originated on its own subnet or came from one of its foreign devices:
    returns (set of must-node-indexes excluding foreign devices, list of foreign device node indexes hanging off the BBMDs involved)"""
    must = set()
    fds = []
    b = lab.nodes[lab.bbmd_of[bsi]]
    for p in b["peers"]:
        # peer subnet: all nodes there (two-hop: re-broadcast by the peer, which lists itself; directed: IP directed broadcast)
        for ni, n in enumerate(lab.nodes):
            if n["subnet"] == p and n["kind"] != "foreign":
                must.add(ni)
        for ni, n in enumerate(lab.nodes):
            if n["kind"] == "foreign" and n["reg_with"] == p:
                fds.append(ni)
    return must, fds


def expected(lab, src, fd_state, fd_send_state):
    """-> (must set, either set) of node indexes"""
    n = lab.nodes[src]
    must, either = set(), set()
    if n["kind"] == "foreign":
        st_ = fd_send_state(src)
        if st_ == "no":
            return set(), set()
        m, fds = reach_via_bbmd(lab, n["reg_with"])
        tgt_must, tgt_either = (must, either) if st_ == "yes" else (either, either)
        tgt_must |= m
        for f in fds:
            if f == src:
                continue
            s2 = fd_state(f)
            if s2 == "yes":
                tgt_must.add(f)
            elif s2 == "maybe":
                either.add(f)
        return must, either - must
    si = n["subnet"]
    for ni, x in enumerate(lab.nodes):
        if x["subnet"] == si and ni != src and x["kind"] != "foreign":
            must.add(ni)
    if si in lab.bbmd_of:
        m, fds = reach_via_bbmd(lab, si)
        must |= m
        for f in fds:
            s2 = fd_state(f)
            if s2 == "yes":
                must.add(f)
            elif s2 == "maybe":
                either.add(f)
    must.discard(src)
    return must, either - must


def run_timeline(layout, ops):
    L = lib()
    lab = BipLab(layout)
    fails = []
    stats = dict(crossing=0, fd_involved=0, edges=0, delivered=0, must=0, either=0, bc=0)
    # foreign device model
    fdm = {}
    for ni, n in enumerate(lab.nodes):
        if n["kind"] == "foreign":
            fdm[ni] = dict(ttl=n["ttl"], cut_at=None, unreg_at=None, deleted_at=None)
    VC.settle()

    seen = dict(n=0, reg={}, ack={})

    def last_ack(ni, now):
        """time of the last acknowledgement of a registration (TTL > 0) that reached this foreign device: read off the wire"""
        dg = lab.datagrams
        while seen["n"] < len(dg):
            t, s_, d_, data, lost = dg[seen["n"]]
            seen["n"] += 1
            if len(data) == 6 and data[1] == 5 and not lost:
                seen["reg"][s_] = (data[4] << 8) | data[5]
            elif len(data) == 6 and data[1] == 0 and data[4:6] == b"\x00\x00" and seen["reg"].get(d_, 0) > 0:
                seen["ack"][d_] = t
        return seen["ack"].get(lab.nodes[ni]["addr"].addrTuple)

    def healthy(ni):
        m = fdm[ni]
        la = seen["ack"].get(lab.nodes[ni]["addr"].addrTuple)
        return m["cut_at"] is None and m["unreg_at"] is None and (m["deleted_at"] is None or (la is not None and la > m["deleted_at"]))

    def fd_state(ni):
        """'yes' must be served, 'no' must not, 'maybe' either"""
        now = VC.clk.now
        m = fdm[ni]
        la = last_ack(ni, now)
        if la is None:
            return "no"
        if m["unreg_at"] is not None:
            if m["cut_at"] is not None and m["cut_at"] <= m["unreg_at"]:
                # the unregistration itself was lost on the way: the BBMD's entry runs out by itself
                return "no" if now > la + m["ttl"] + 31 else "maybe"
            return "no" if now > m["unreg_at"] + 31 else "maybe"
        if m["deleted_at"] is not None and m["deleted_at"] >= la:
            # deleted and not registered again yet
            return "no"
        if now <= la + m["ttl"] or healthy(ni):
            return "yes"                 # 'renews itself before that': a device nobody interferes with is served without a gap
        if now <= la + m["ttl"] + 31:
            return "maybe"
        return "no"

    def fd_send_state(ni):
        """may this foreign device's own broadcasts be distributed: it believes itself registered until t_ack+TTL+30"""
        now = VC.clk.now
        m = fdm[ni]
        la = last_ack(ni, now)
        if la is None or m["unreg_at"] is not None:
            return "no"
        if now <= la + m["ttl"] or healthy(ni):
            return "maybe" if (m["deleted_at"] is not None and m["deleted_at"] >= la) else "yes"
        return "maybe" if now <= la + m["ttl"] + 31 else "no"

    tok_n = [0]
    for step in ops:
        k = step[0]
        try:
            if k in ("bc", "bc-renewal"):
                src = step[1] % len(lab.nodes)
                tok_n[0] += 1
                token = b"B%05d" % tok_n[0]
                before = [len(n["rec"].got) for n in lab.nodes]
                if k == "bc-renewal":
                    # a broadcast sent in the very instant in which a foreign device renews its registration
                    fl = sorted(f_ for f_ in fdm if healthy(f_))
                    if not fl:
                        continue
                    fdn = fl[step[2] % len(fl)]
                    a_ = lab.nodes[fdn]["addr"].addrTuple
                    regs = [t for (t, s_, d_, data, lost) in lab.datagrams if s_ == a_ and len(data) == 6 and data[1] == 5]
                    t_next = (regs[-1] if regs else 0.0) + fdm[fdn]["ttl"]
                    if t_next <= VC.clk.now or t_next - VC.clk.now > 400:
                        continue
                    pre = dict((f_, fd_state(f_)) for f_ in fdm)
                    from bacpypes.task import FunctionTask
                    ft = FunctionTask(lab.broadcast, src, token)
                    ft.install_task(when=t_next)
                    lab.advance(t_next - VC.clk.now)
                    VC.clk.now = t_next
                    VC.settle()
                    stats["at_renewal"] = stats.get("at_renewal", 0) + 1
                must, either = expected(lab, src, fd_state, fd_send_state)
                if k == "bc-renewal":
                    # a device that was not being served just before this instant (deleted, not yet registered) and registers in it: either order
                    for f_ in fdm:
                        if pre[f_] != "yes" and f_ in must:
                            must.discard(f_)
                            either.add(f_)
                    if lab.nodes[src]["kind"] == "foreign" and pre.get(src) != "yes":
                        either |= must
                        must = set()
                for f_ in fdm:
                    stats["fd_" + fd_state(f_)] = stats.get("fd_" + fd_state(f_), 0) + 1
                if k == "bc":
                    lab.broadcast(src, token)
                    VC.settle()
                got = {}
                for ni, n in enumerate(lab.nodes):
                    for (t, data, s, d) in n["rec"].got[before[ni]:]:
                        if data == token:
                            got.setdefault(ni, []).append(s)
                n_src = lab.nodes[src]
                stats["bc"] += 1
                stats["delivered"] += len(got)
                stats["must"] += len(must)
                stats["either"] += len(either)
                if any(lab.nodes[x]["subnet"] != n_src["subnet"] for x in must | either) or n_src["kind"] == "foreign":
                    stats["crossing"] += 1
                if n_src["kind"] == "foreign" or any(lab.nodes[x]["kind"] == "foreign" for x in must | either):
                    stats["fd_involved"] += 1
                desc = "broadcast from node %d (%s %s) at t=%.2f; layout %r" % (src, n_src["kind"], n_src["addr"], VC.clk.now, layout)
                if src in got:
                    fails.append(("echo-to-originator:%s" % n_src["kind"], desc))
                for ni in sorted(must):
                    if ni not in got:
                        fails.append(("not-delivered:%s-to-%s" % (n_src["kind"], lab.nodes[ni]["kind"]), "%s: node %d (%s %s) did not receive it" % (desc, ni, lab.nodes[ni]["kind"], lab.nodes[ni]["addr"])))
                        break
                for ni, srcs in sorted(got.items()):
                    if ni == src:
                        continue
                    if len(srcs) > 1:
                        fails.append(("delivered-twice:%s-to-%s" % (n_src["kind"], lab.nodes[ni]["kind"]), "%s: node %d (%s) received it %d times" % (desc, ni, lab.nodes[ni]["addr"], len(srcs))))
                        break
                    if ni not in must and ni not in either:
                        why = "the tables do not reach it"
                        if lab.nodes[ni]["kind"] == "foreign":
                            why = "its registration is over (model state %s)" % fd_state(ni)
                        fails.append(("delivered-to-unreachable:%s-to-%s" % (n_src["kind"], lab.nodes[ni]["kind"]), "%s: node %d (%s) received it although %s" % (desc, ni, lab.nodes[ni]["addr"], why)))
                        break
                    if srcs[0] != n_src["addr"]:
                        fails.append(("wrong-source:%s-to-%s" % (n_src["kind"], lab.nodes[ni]["kind"]), "%s: node %d was shown source %s" % (desc, ni, srcs[0])))
                        break
            elif k == "adv":
                t0 = VC.clk.now
                lab.advance(float(step[1]))
                VC.clk.now = t0 + float(step[1])
                stats["edges"] += 1
            elif k == "edge":
                # run up to an edge of one foreign device's registration (relative to its last acknowledged registration)
                fl = sorted(fdm)
                if fl:
                    ni = fl[step[1] % len(fl)]
                    la = last_ack(ni, VC.clk.now)
                    ttl = fdm[ni]["ttl"]
                    base = (la if la is not None else 0.0) + {"ttl": ttl, "ttl+5": ttl + 5, "ttl+30": ttl + 30, "ttl+31": ttl + 31, "2ttl": 2 * ttl, "3ttl": 3 * ttl}[step[2]]
                    target = base + step[3]
                    if target > VC.clk.now and target - VC.clk.now <= 2000:
                        lab.advance(target - VC.clk.now)
                        VC.clk.now = target
                        stats["edges"] += 1
            elif k == "cut":
                fl = sorted(fdm)
                if fl:
                    ni = fl[step[1] % len(fl)]
                    if fdm[ni]["cut_at"] is None:
                        fdm[ni]["cut_at"] = VC.clk.now
                        lab.nodes[ni]["mux"].cut_register = True
            elif k == "unreg":
                fl = sorted(fdm)
                if fl:
                    ni = fl[step[1] % len(fl)]
                    if fdm[ni]["unreg_at"] is None and last_ack(ni, VC.clk.now) is not None:
                        lab.nodes[ni]["bip"].unregister()
                        fdm[ni]["unreg_at"] = VC.clk.now
                        VC.settle()
            elif k == "delete":
                fl = sorted(fdm)
                if fl:
                    ni = fl[step[1] % len(fl)]
                    b = lab.nodes[lab.bbmd_of[lab.nodes[ni]["reg_with"]]]
                    n0 = len(lab.mgr.got)
                    req = L.BV.DeleteForeignDeviceTableEntry(lab.nodes[ni]["addr"])
                    req.pduDestination = b["addr"]
                    lab.mgr.request(req)
                    VC.settle()
                    acks = [p for p in lab.mgr.got[n0:] if isinstance(p, L.BV.Result)]
                    if not acks:
                        fails.append(("delete-fdt-entry:not-answered", "layout %r" % (layout,)))
                    elif acks[0].bvlciResultCode == 0:
                        fdm[ni]["deleted_at"] = VC.clk.now
            elif k == "readfdt":
                bl = sorted(lab.bbmd_of)
                if bl:
                    bsi = bl[step[1] % len(bl)]
                    b = lab.nodes[lab.bbmd_of[bsi]]
                    n0 = len(lab.mgr.got)
                    req = L.BV.ReadForeignDeviceTable()
                    req.pduDestination = b["addr"]
                    lab.mgr.request(req)
                    VC.settle()
                    acks = [p for p in lab.mgr.got[n0:] if isinstance(p, L.BV.ReadForeignDeviceTableAck)]
                    if not acks:
                        fails.append(("read-fdt:not-answered", "layout %r" % (layout,)))
                    else:
                        listed = set(bytes(e.fdAddress.addrAddr) for e in acks[0].bvlciFDT)
                        for ni in sorted(fdm):
                            if lab.nodes[ni]["reg_with"] != bsi:
                                continue
                            st_ = fd_state(ni)
                            a = bytes(lab.nodes[ni]["addr"].addrAddr)
                            # 'listed' follows the BBMD's table: after unregister the entry lingers for the grace period
                            if st_ == "yes" and a not in listed and fdm[ni]["unreg_at"] is None:
                                fails.append(("read-fdt:live-registration-not-listed", "t=%.2f: foreign device %s (ttl %d) is not in the FDT of %s; layout %r" % (VC.clk.now, lab.nodes[ni]["addr"], fdm[ni]["ttl"], b["addr"], layout)))
                            if st_ == "no" and a in listed:
                                fails.append(("read-fdt:dead-registration-listed", "t=%.2f: foreign device %s (ttl %d, model %r) is still in the FDT of %s; layout %r" % (VC.clk.now, lab.nodes[ni]["addr"], fdm[ni]["ttl"], fdm[ni], b["addr"], layout)))
        except Exception as err:
            import traceback
            fails.append(("step-raised:%s:%s" % (k, type(err).__name__), "step %r raised %r %s" % (step, err, traceback.format_exc()[-300:])))
        sw = [r for r in boot.swallowed.take() if r[0]]
        if sw and not fails:
            fails.append(("swallowed:%s@%s" % (sw[0][0], sw[0][1]), "step %r at t=%.2f: %r; layout %r" % (step, VC.clk.now, sw[0], layout)))
        if fails:
            break
    # renewal discipline: registration frames of a foreign device leave it at most TTL apart while it is registering
    if not fails:
        for ni in sorted(fdm):
            m = fdm[ni]
            a = lab.nodes[ni]["addr"].addrTuple
            times = [t for (t, s, d, data, lost) in lab.datagrams if s == a and len(data) > 5 and data[1] == 5 and data[4:6] != b"\x00\x00"]
            end = m["unreg_at"] if m["unreg_at"] is not None else VC.clk.now
            pts = [t for t in times if t <= end] + [end]
            gaps = [b_ - a_ for a_, b_ in zip(pts, pts[1:])]
            if last_ack(ni, VC.clk.now) is None and m["cut_at"] is None:
                fails.append(("registration-never-acknowledged", "foreign device %s; layout %r" % (lab.nodes[ni]["addr"], layout)))
            elif not times or times[0] > 0.001:
                fails.append(("renewal:no-initial-registration", "foreign device %s; layout %r" % (lab.nodes[ni]["addr"], layout)))
            elif gaps and max(gaps) > m["ttl"] + 30 + 1e-6:
                fails.append(("renewal:gap-exceeds-ttl-plus-grace", "foreign device %s (ttl %d) sent registrations at %r" % (lab.nodes[ni]["addr"], m["ttl"], times[:8])))
    return fails[:2], stats


def judge(case):
    try:
        with watchdog(120):
            fails, stats = run_timeline(case["layout"], case["ops"])
    except Stall:
        return Verdict([("stall", "no return within 120 s")], True, ("stall",))
    labels = [k for k in ("crossing", "fd_involved", "fd_yes", "fd_maybe", "fd_no", "at_renewal") if stats.get(k)]
    ops_seen = set(o[0] for o in case["ops"])
    labels += ["op:" + o for o in sorted(ops_seen & set(["cut", "unreg", "delete", "readfdt"]))]
    if case["layout"]["bdt"] != "full":
        labels.append("partial-tables")
    labels.append(case["layout"]["mask"])
    if any(case["layout"]["subnets"][f["home"]]["bbmd"] for f in case["layout"]["fds"]):
        labels.append("fd-beside-other-bbmd")
    return Verdict(fails, stats["crossing"] > 0 or stats["fd_involved"] > 0, labels or ["local"])


# ---- generation --------------------------------------------------------------------------------------------------------------------

def layout_strategy():
    from hypothesis import strategies as st

    def build(t):
        subs, fds, mask, bdt_kind, pairs = t
        subnets = [dict(bbmd=b, simple=n) for b, n in subs]
        for i_, sn_ in enumerate(subnets):
            if (pairs[i_ % len(pairs)][0] if pairs else 0) % 3 == 1:
                sn_["wide"] = True
        bb = [i for i, s in enumerate(subnets) if s["bbmd"]]
        nb = [i for i, s in enumerate(subnets) if not s["bbmd"]]
        if not bb:
            subnets[0]["bbmd"] = True
            bb = [0]
            nb = [i for i in nb if i != 0]
        out_fds = []
        for home, reg, ttl in fds:
            r = bb[reg % len(bb)]
            # anywhere but the subnet of the BBMD it registers with; next to another BBMD only when that BBMD re-broadcasts
            # under its own address (two-hop): with directed broadcasts the registrar's own datagram is heard there as well
            cand = [i for i, s_ in enumerate(subnets) if i != r and (not s_["bbmd"] or mask == "two-hop")]
            if cand:
                out_fds.append(dict(home=cand[home % len(cand)], bbmd=r, ttl=ttl))
        bdt = "full"
        if bdt_kind and len(bb) > 1:
            bdt = [[bb[a % len(bb)], bb[b % len(bb)]] for a, b in pairs if bb[a % len(bb)] != bb[b % len(bb)]]
        return dict(subnets=subnets, fds=out_fds, mask=mask, bdt=bdt)
    sub = st.tuples(st.sampled_from([True, True, False]), st.integers(0, 3))
    return st.tuples(st.one_of(st.lists(sub, min_size=2, max_size=5), st.lists(sub, min_size=3, max_size=5), st.lists(sub, min_size=1, max_size=5)),
                     st.lists(st.tuples(st.integers(0, 4), st.integers(0, 4), st.one_of(st.sampled_from([1, 2, 5, 7, 30, 40, 60, 300]), st.integers(1, 300))), max_size=4),
                     st.sampled_from(["two-hop", "directed"]), st.sampled_from([False, False, True]),
                     st.lists(st.tuples(st.integers(0, 4), st.integers(0, 4)), max_size=6)).map(build)


def ops_strategy():
    from hypothesis import strategies as st
    bc = st.tuples(st.just("bc"), st.integers(0, 30)).map(list)
    adv = st.tuples(st.just("adv"), st.sampled_from([0.3, 0.5, 1.0, 1.5, 2.0, 4.0, 5.0, 5.5, 6.0, 29.0, 30.0, 31.0, 35.5, 60.0, 61.0, 90.5, 300.0, 330.5])).map(list)
    bcr = st.tuples(st.just("bc-renewal"), st.integers(0, 30), st.integers(0, 3)).map(list)
    other = st.one_of(bcr, bcr, st.tuples(st.just("cut"), st.integers(0, 3)).map(list), st.tuples(st.just("unreg"), st.integers(0, 3)).map(list),
                      st.tuples(st.just("delete"), st.integers(0, 3)).map(list), st.tuples(st.just("readfdt"), st.integers(0, 4)).map(list))
    edge = st.tuples(st.just("edge"), st.integers(0, 3), st.sampled_from(["ttl", "ttl+5", "ttl+30", "ttl+31", "2ttl", "3ttl"]), st.sampled_from([-1.5, -0.5, 0.0, 0.5, 1.5, 7.25])).map(list)
    return st.lists(st.one_of(bc, bc, bc, bc, adv, adv, edge, edge, other), min_size=3, max_size=30)


def plan(tier, seed):
    return [dict(name="timelines-%d" % i, kind="t", n=500 if tier == "quick" else 20000) for i in range(16)] + \
           [dict(name="tracing-timelines", kind="t", n=100 if tier == "quick" else 3000, tracing=True)]   # once more with debug tracing on


def run(spec, ctx):
    from hypothesis import strategies as st
    strat = st.tuples(layout_strategy(), ops_strategy()).map(lambda t: dict(k="t", layout=t[0], ops=t[1]))
    ctx.for_all(strat, spec["n"])
