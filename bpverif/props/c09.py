"""C09 -- BACnet/IP frames carry a correct length and round-trip all twelve functions."""
import itertools, struct
from ..runner import Verdict
from ..ref import bvlc as R

ID = "C09"
LEVEL = "exploration"
RULE = ("Hypothesis-generated parameters for each of the 12 BVLL functions (result codes, BDT/FDT tables of 0..40 entries over "
        "IPv4 boundary addresses x ports {0,1,47808,65535} x all 33 prefix masks x TTL/remaining boundaries, NPDU payloads "
        "0..1497 octets incl. every length 0..1497 once) sent down through a real AnnexJCodec and captured below it; decode "
        "side enumerates all type 0..255 x function 0..255 x length-field {actual, actual+-1, 0, 3, 65535} headers over four "
        "short bodies, all octet strings of length <= 2 (<= 3 thorough; up to 4 with 0x81 first), plus truncations and "
        "mutations of valid frames, delivered through AnnexJCodec.confirmation. Oracle: emitted octets equal the independent "
        "Annex J reference encoder (0x81, function, 16-bit length == len(frame)) or the encoder refuses with EncodingError; "
        "upward decode restores every parameter; DecodingError exactly when the reference rejects (type, length, truncated "
        "body). Non-trivial: table with >= 2 entries, payload >= 1 octet, or a rejected frame that passed the type check. "
        "Distinct by octets."
        " Also: every message built with its parameters assigned after construction."
        " Every message object is sent a second time."
        " The tables a real BBMD reports (Read-BDT-Ack, Read-FDT-Ack with remaining times) compared with the reference encoder. One reduced copy of a generated shard runs with the library's debug tracing switched on (label tracing-on).")
ASSUMPTIONS = [
    "bpverif/ref/bvlc.py transcribes Annex J.2 correctly",
    "well-formed frames with function codes >= 12 are not judged here (the statement does not cover them; C10 does)",
    "trailing octets after fixed-size bodies (Result, Register-Foreign-Device, Delete-FDT-Entry) are ignored by both sides",
]

_lib = None


class _Lib(object):
    pass


def lib():
    global _lib
    if _lib is None:
        L = _Lib()
        from bacpypes import bvll as B
        from bacpypes.bvllservice import AnnexJCodec
        from bacpypes.comm import Client, Server, bind
        from bacpypes.pdu import PDU, Address, unpack_ip_addr
        from bacpypes.errors import DecodingError, EncodingError
        L.B, L.PDU, L.Address, L.unpack, L.DE, L.EE = B, PDU, Address, unpack_ip_addr, DecodingError, EncodingError

        class Top(Client):
            def __init__(self):
                Client.__init__(self)
                self.got = []

            def confirmation(self, pdu):
                self.got.append(pdu)

        class Bottom(Server):
            def __init__(self):
                Server.__init__(self)
                self.got = []

            def indication(self, pdu):
                self.got.append(pdu)

        L.top, L.codec, L.bottom = Top(), AnnexJCodec(), Bottom()
        bind(L.top, L.codec, L.bottom)
        _lib = L
    return _lib


def mk_ip(L, a6):
    return L.Address(L.unpack(bytes(a6)))


def build(L, fn, p):
    B = L.B
    if fn == 0:
        return B.Result(p["code"])
    if fn in (1, 3):
        bdt = []
        for a, m in p["bdt"]:
            ad = mk_ip(L, a)
            ad.addrMask = m
            bdt.append(ad)
        return (B.WriteBroadcastDistributionTable if fn == 1 else B.ReadBroadcastDistributionTableAck)(bdt)
    if fn == 2:
        return B.ReadBroadcastDistributionTable()
    if fn == 4:
        return B.ForwardedNPDU(mk_ip(L, p["addr"]), bytes(p["data"]))
    if fn == 5:
        return B.RegisterForeignDevice(p["ttl"])
    if fn == 6:
        return B.ReadForeignDeviceTable()
    if fn == 7:
        fdt = []
        for a, t, r in p["fdt"]:
            e = B.FDTEntry()
            e.fdAddress, e.fdTTL, e.fdRemain = mk_ip(L, a), t, r
            fdt.append(e)
        return B.ReadForeignDeviceTableAck(fdt)
    if fn == 8:
        return B.DeleteForeignDeviceTableEntry(mk_ip(L, p["addr"]))
    if fn == 9:
        return B.DistributeBroadcastToNetwork(bytes(p["data"]))
    if fn == 10:
        return B.OriginalUnicastNPDU(bytes(p["data"]))
    if fn == 11:
        return B.OriginalBroadcastNPDU(bytes(p["data"]))


def build_late(L, fn, p):
    """the same message, but with its parameters assigned after construction (a message object filled in step by step, or re-used)"""
    B = L.B
    x = build(L, fn, p)
    if fn == 0:
        y = B.Result()
        y.bvlciResultCode = x.bvlciResultCode
    elif fn in (1, 3):
        ph = mk_ip(L, bytes([1, 2, 3, 4, 0xBA, 0xC0]))
        ph.addrMask = 0xFFFFFFFF
        y = (B.WriteBroadcastDistributionTable if fn == 1 else B.ReadBroadcastDistributionTableAck)([ph])
        y.bvlciBDT = x.bvlciBDT
    elif fn == 4:
        y = B.ForwardedNPDU(mk_ip(L, bytes([1, 2, 3, 4, 0xBA, 0xC0])), b"\x01\x02\x03")
        y.bvlciAddress = x.bvlciAddress
        y.pduData = bytearray(x.pduData)
    elif fn == 5:
        y = B.RegisterForeignDevice()
        y.bvlciTimeToLive = x.bvlciTimeToLive
    elif fn == 7:
        y = B.ReadForeignDeviceTableAck([])
        y.bvlciFDT = x.bvlciFDT
    elif fn == 8:
        y = B.DeleteForeignDeviceTableEntry()
        y.bvlciAddress = x.bvlciAddress
    elif fn in (9, 10, 11):
        y = type(x)(b"\x01\x02\x03")
        y.pduData = bytearray(x.pduData)
    else:
        y = x
    return y


def params_of(L, fn, x):
    if fn == 0:
        return dict(code=x.bvlciResultCode)
    if fn in (1, 3):
        return dict(bdt=[(bytes(a.addrAddr), a.addrMask) for a in x.bvlciBDT])
    if fn in (2, 6):
        return dict()
    if fn == 4:
        return dict(addr=bytes(x.bvlciAddress.addrAddr), data=bytes(x.pduData))
    if fn == 5:
        return dict(ttl=x.bvlciTimeToLive)
    if fn == 7:
        return dict(fdt=[(bytes(e.fdAddress.addrAddr), e.fdTTL, e.fdRemain) for e in x.bvlciFDT])
    if fn == 8:
        return dict(addr=bytes(x.bvlciAddress.addrAddr))
    return dict(data=bytes(x.pduData))


def norm(p):
    q = {}
    for k, v in p.items():
        if k == "bdt":
            q[k] = [(bytes(a), m) for a, m in v]
        elif k == "fdt":
            q[k] = [(bytes(a), t, r) for a, t, r in v]
        elif k in ("addr", "data"):
            q[k] = bytes(v)
        else:
            q[k] = v
    return q


def check_emit(fn, p, late=False):
    """message object -> AnnexJCodec.indication -> octets below the codec"""
    L = lib()
    name = R.NAMES[fn] + (":filled-in-later" if late else "")
    del L.bottom.got[:]
    try:
        x = build_late(L, fn, p) if late else build(L, fn, p)
        L.top.request(x)
    except L.EE as err:
        # every generated message is representable (tables <= 40 entries, payload <= 1497 octets): a refusal
        # means the function does not round-trip its parameters
        return [("emit:%s:refused-valid" % name, "%s%r refused with EncodingError(%s)" % (name, _short(p), err))], "refused"
    except Exception as err:
        return [("emit:%s:raised:%s" % (name, type(err).__name__), "sending %s%r raised %r" % (name, _short(p), err))], None
    if len(L.bottom.got) != 1:
        return [("emit:%s:frames" % name, "%d frames came out for one message" % len(L.bottom.got))], None
    octets = bytes(L.bottom.got[0].pduData)
    fails = []
    if len(octets) < 4 or octets[0] != 0x81 or octets[1] != fn:
        fails.append(("emit:%s:header" % name, "frame starts %s" % octets[:4].hex()))
    elif struct.unpack(">H", octets[2:4])[0] != len(octets):
        fails.append(("emit:%s:length-field" % name, "length field %d but the frame has %d octets (%r)"
                      % (struct.unpack(">H", octets[2:4])[0], len(octets), _short(p))))
    want = R.encode(fn, p)
    if not fails and octets != want:
        fails.append(("emit:%s:differs" % name, "params %r: library %s..., Annex J %s..." % (_short(p), octets[:40].hex(), want[:40].hex())))
    if not fails:
        # the same message object sent once more (what a BBMD does for every further peer and foreign device) gives the same frame
        try:
            del L.bottom.got[:]
            L.top.request(x)
            again = bytes(L.bottom.got[0].pduData) if L.bottom.got else None
        except Exception as err:
            again = "raised %r" % (err,)
        if again != octets:
            fails.append(("emit:%s:second-send-differs" % name, "params %r: first frame %s..., the same object sent again %s..." % (_short(p), octets[:40].hex(), again[:40].hex() if isinstance(again, bytes) else again)))
    if fails:
        return fails, octets
    f2 = check_receive(octets, expect=(fn, norm(p)))
    return f2, octets


def _short(p):
    s = repr(p)
    return s if len(s) < 300 else s[:300] + "..."


def check_receive(frame, expect=None):
    """octets -> AnnexJCodec.confirmation -> message object above the codec"""
    L = lib()
    frame = bytes(frame)
    try:
        want = R.decode(frame)
        why = None
    except R.Reject as rj:
        want, why = None, str(rj)
    del L.top.got[:]
    try:
        L.bottom.response(L.PDU(frame))
        raised = None
    except L.DE as err:
        raised = "DecodingError"
    except Exception as err:
        raised = type(err).__name__
    if want is None:
        if raised == "DecodingError":
            return []
        if raised is None:
            return [("recv:accepted-invalid:%s" % why.split()[0], "%s accepted although %s is wrong" % (frame[:40].hex(), why))]
        if why in ("type", "length") or frame[1:2] and frame[1] < 12:
            return [("recv:other-exception:%s:%s" % (why.split()[0], raised), "%s raised %s instead of DecodingError (%s)" % (frame[:40].hex(), raised, why))]
        return []
    fn, wp = want
    if wp is None:
        return []                      # unknown function, well-formed header: not judged here
    name = R.NAMES[fn]
    if raised == "DecodingError":
        return [("recv:%s:refused-valid" % name, "%s is a well-formed %s but was refused" % (frame[:40].hex(), name))]
    if raised is not None:
        return [("recv:%s:raised:%s" % (name, raised), "%s raised %s" % (frame[:40].hex(), raised))]
    if len(L.top.got) != 1:
        return [("recv:%s:deliveries" % name, "%d objects delivered upward" % len(L.top.got))]
    x = L.top.got[0]
    fails = []
    if type(x).__name__ != name:
        return [("recv:%s:wrong-class" % name, "function %d delivered as %s" % (fn, type(x).__name__))]
    try:
        gp = params_of(L, fn, x)
    except Exception as err:
        return [("recv:%s:params-raised:%s" % (name, type(err).__name__), repr(err))]
    wp = norm(wp)
    for k in wp:
        if gp.get(k) != wp[k]:
            fails.append(("recv:%s:param:%s" % (name, k), "%s: %s decoded as %r, Annex J says %r" % (frame[:40].hex(), k, _short(gp.get(k)), _short(wp[k]))))
    if expect is not None and (fn, wp) != expect:
        fails.append(("recv:%s:reference-self-check" % name, "reference round trip broke: %r" % (_short(expect),)))
    return fails


# ---- JSON ---------------------------------------------------------------------

def p_to_json(p):
    q = {}
    for k, v in p.items():
        if k == "bdt":
            q[k] = [[bytes(a).hex(), m] for a, m in v]
        elif k == "fdt":
            q[k] = [[bytes(a).hex(), t, r] for a, t, r in v]
        elif k in ("addr", "data"):
            q[k] = bytes(v).hex()
        else:
            q[k] = v
    return q


def p_from_json(p):
    q = {}
    for k, v in p.items():
        if k == "bdt":
            q[k] = [(bytes.fromhex(a), m) for a, m in v]
        elif k == "fdt":
            q[k] = [(bytes.fromhex(a), t, r) for a, t, r in v]
        elif k in ("addr", "data"):
            q[k] = bytes.fromhex(v)
        else:
            q[k] = v
    return q


def emit_nontrivial(fn, p):
    return len(p.get("bdt", ())) >= 2 or len(p.get("fdt", ())) >= 2 or len(p.get("data", b"")) >= 1


def judge(case):
    k = case["k"]
    if k == "bbmdfdt":
        from bacpypes.bvllservice import BIPBBMD
        from bacpypes import bvll as B_
        L = lib()
        bb = BIPBBMD(L.Address("192.168.1.2/24"))
        bb.register_foreign_device(L.Address("192.168.9.9"), case["ttl"])
        del L.bottom.got[:]
        fails = []
        try:
            L.top.request(B_.ReadForeignDeviceTableAck(bb.bbmdFDT))
            fn, p = R.decode(bytes(L.bottom.got[0].pduData))
            if [e[1] for e in p["fdt"]] != [case["ttl"]]:
                fails.append(("emit:ReadForeignDeviceTableAck:bbmd:ttl-field", "TTL %d reported as %r" % (case["ttl"], [e[1] for e in p["fdt"]])))
        except Exception as err:
            if case["ttl"] + 5 <= 65535:
                fails.append(("emit:ReadForeignDeviceTableAck:bbmd:raised:%s" % type(err).__name__, repr(err)))
        bb.suspend_task()
        return Verdict(fails, True, ("emit:bbmd-table",))
    if k == "emit":
        p = p_from_json(case["p"])
        fails, octets = check_emit(case["fn"], p)
        if not fails and octets != "refused":
            # and once more with the parameters assigned after construction
            fails, octets = check_emit(case["fn"], p, late=True)
        labels = ["emit:" + R.NAMES[case["fn"]]]
        if octets == "refused":
            labels.append("emit:refused")
        return Verdict(fails, emit_nontrivial(case["fn"], p), labels)
    if k == "recv":
        b = bytes.fromhex(case["b"])
        try:
            R.decode(b)
            rejected = False
        except R.Reject:
            rejected = True
        return Verdict(check_receive(b), (rejected and b[:1] == b"\x81") or (not rejected and len(b) > 4),
                       ("recv:rejected" if rejected else "recv:accepted",))
    raise ValueError(k)


# ---- generation ------------------------------------------------------------------

def strategies():
    from hypothesis import strategies as st
    ip = st.one_of(st.sampled_from([b"\x00\x00\x00\x00", b"\xff\xff\xff\xff", b"\x7f\x00\x00\x01", b"\x0a\x00\x00\x01",
                                    b"\xc0\xa8\x00\xff", b"\x01\x02\x03\x04", b"\xe0\x00\x00\x01"]),
                   st.binary(min_size=4, max_size=4))
    port = st.one_of(st.sampled_from([0, 1, 47807, 47808, 47823, 65535]), st.integers(0, 65535))
    a6 = st.tuples(ip, port).map(lambda t: t[0] + struct.pack(">H", t[1]))
    mask = st.one_of(st.integers(0, 32).map(lambda n: (0xFFFFFFFF << (32 - n)) & 0xFFFFFFFF), st.integers(0, 0xFFFFFFFF))
    u16 = st.one_of(st.sampled_from([0, 1, 255, 256, 65534, 65535]), st.integers(0, 65535))
    tablen = st.one_of(st.sampled_from([0, 1, 2, 39, 40]), st.integers(0, 40))
    bdt = tablen.flatmap(lambda n: st.lists(st.tuples(a6, mask), min_size=n, max_size=n))
    fdt = tablen.flatmap(lambda n: st.lists(st.tuples(a6, u16, u16), min_size=n, max_size=n))
    dlen = st.one_of(st.sampled_from([0, 1, 2, 255, 256, 1476, 1496, 1497]), st.integers(0, 1497))
    data = dlen.flatmap(lambda n: st.binary(min_size=n, max_size=n))
    P = {
        0: u16.map(lambda c: dict(code=c)),
        1: bdt.map(lambda t: dict(bdt=t)), 3: bdt.map(lambda t: dict(bdt=t)),
        2: st.just(dict()), 6: st.just(dict()),
        4: st.tuples(a6, data).map(lambda t: dict(addr=t[0], data=t[1])),
        5: u16.map(lambda t: dict(ttl=t)),
        7: fdt.map(lambda t: dict(fdt=t)),
        8: a6.map(lambda a: dict(addr=a)),
        9: data.map(lambda d: dict(data=d)), 10: data.map(lambda d: dict(data=d)), 11: data.map(lambda d: dict(data=d)),
    }
    emit = st.sampled_from(range(12)).flatmap(lambda fn: P[fn].map(lambda p: dict(k="emit", fn=fn, p=p_to_json(p))))
    return emit, P


def _mutate(b, op, pos, val):
    b = bytearray(b)
    if not b:
        return bytes(b)
    pos %= len(b)
    if op == 0:
        b[pos] = val
    elif op == 1:
        b.insert(pos, val)
    elif op == 2:
        del b[pos]
    elif op == 3:
        del b[pos:]
    else:
        b[pos % min(4, len(b))] = val        # hit the header
    return bytes(b)


def plan(tier, seed):
    specs = []
    n = 2500 if tier == "quick" else 30000
    for i in range(4):
        specs.append(dict(name="emit-%d" % i, kind="emit", n=n))
    specs.append(dict(name="payload-lengths", kind="lengths"))
    for hi in range(8):
        specs.append(dict(name="headers-%d" % hi, kind="headers", types=[hi * 32, hi * 32 + 32]))
    specs.append(dict(name="strings<=2", kind="strings", length=2))
    specs.append(dict(name="strings4-0x81", kind="strings81", tier=tier))
    if tier == "thorough":
        for hi in range(16):
            specs.append(dict(name="strings3-%x" % hi, kind="strings", length=3, first_hi=hi))
    for i in range(3):
        specs.append(dict(name="mutated-%d" % i, kind="mutated", n=4000 if tier == "quick" else 50000))
    specs.append(dict(name="tracing-on", kind="debug", n=600 if tier == "quick" else 6000))
    specs.append(dict(name="bbmd-table-reply", kind="bbmdfdt"))
    return specs


BODIES = (b"", b"\x00\x1e", b"\x01\x02\x03\x04\xba\xc0", b"\x01\x02\x03\x04\xba\xc0\xff\xff\xff\x00")


def run(spec, ctx):
    kind = spec["kind"]
    if kind == "debug":
        # the same messages with the library's debug tracing switched on (what --debug does): tracing must not change a single octet
        emit, P = strategies()
        ctx.for_all(emit.map(lambda c_: dict(c_, dbg=1)), spec["n"], salt=3)
        return
    if kind == "bbmdfdt":
        # the table a real BBMD reports: the TTL of every entry is the TTL that was registered, up to the 16-bit limit
        from bacpypes.bvllservice import BIPBBMD
        from bacpypes import bvll as B_
        L = lib()
        n_ = 0
        for ttl in (1, 30, 65529, 65530, 65531, 65532, 65533, 65534, 65535):
            bb = BIPBBMD(L.Address("192.168.1.2/24"))
            bb.register_foreign_device(L.Address("192.168.9.9"), ttl)
            bb.register_foreign_device(L.Address("192.168.9.10"), 7)
            ack = B_.ReadForeignDeviceTableAck(bb.bbmdFDT)
            del L.bottom.got[:]
            n_ += 1
            try:
                L.top.request(ack)
                octets = bytes(L.bottom.got[0].pduData)
                fn, p = R.decode(octets)
                ttls = [e[1] for e in p["fdt"]]
                if ttls != [ttl, 7]:
                    ctx.fail(dict(k="bbmdfdt", ttl=ttl), "emit:ReadForeignDeviceTableAck:bbmd:ttl-field", "registered TTLs %r, the table reply says %r (%s)" % ([ttl, 7], ttls, octets.hex()))
            except Exception as err:
                if ttl + 5 <= 65535:
                    ctx.fail(dict(k="bbmdfdt", ttl=ttl), "emit:ReadForeignDeviceTableAck:bbmd:raised:%s" % type(err).__name__, "TTL %d: %r" % (ttl, err))
            bb.suspend_task()
        ctx.bulk(n_, n_, "emit:bbmd-table", dict(k="bbmdfdt", ttl=65535))
        return
    if kind == "emit":
        emit, P = strategies()
        ctx.for_all(emit, spec["n"])
    elif kind == "lengths":
        n = 0
        for fn in (4, 9, 10, 11):
            for ln in range(0, 1498):
                p = dict(data=bytes((i * 31 + ln) & 0xFF for i in range(ln)))
                if fn == 4:
                    p["addr"] = b"\x0a\x00\x00\x01\xba\xc0"
                fails, octets = check_emit(fn, p)
                n += 1
                for s, m in fails:
                    ctx.fail(dict(k="emit", fn=fn, p=p_to_json(p)), s, m)
        ctx.bulk(n, n - 4, "emit:every-payload-length", dict(k="emit", fn=10, p=dict(data="0102")))
        ctx.mark_exhaustive("every NPDU payload length 0..1497 for the four data-carrying functions")
    elif kind == "headers":
        n = nt = 0
        for t in range(*spec["types"]):
            for fn in range(256):
                for body in BODIES:
                    actual = 4 + len(body)
                    for lf in (actual, actual + 1, actual - 1, 0, 3, 65535):
                        frame = bytes([t, fn]) + struct.pack(">H", lf) + body
                        fails = check_receive(frame)
                        n += 1
                        if t == 0x81:
                            nt += 1
                            ctx.trail.append(frame)
                        for s, m in fails:
                            ctx.fail(dict(k="recv", b=frame.hex()), s, m, trail_case=lambda x: dict(k="recv", b=x.hex()))
        ctx.bulk(n, nt, "recv:header-space", dict(k="recv", b="81050007001e"))
        ctx.mark_exhaustive("type x function x length-field header space, types %d..%d" % (spec["types"][0], spec["types"][1] - 1))
    elif kind == "strings":
        L_ = spec["length"]
        n = nt = 0
        if "first_hi" in spec:
            space = (bytes((a, b1, c)) for a in range(spec["first_hi"] * 16, spec["first_hi"] * 16 + 16)
                     for b1 in range(256) for c in range(256))
        else:
            space = itertools.chain([b""], (bytes(t) for ln in range(1, L_ + 1) for t in itertools.product(range(256), repeat=ln)))
        for b in space:
            fails = check_receive(b)
            n += 1
            if b[:1] == b"\x81":
                nt += 1
                ctx.trail.append(b)
            for s, m in fails:
                ctx.fail(dict(k="recv", b=b.hex()), s, m, trail_case=lambda x: dict(k="recv", b=x.hex()))
        ctx.bulk(n, nt, "recv:short", dict(k="recv", b="8100"))
        ctx.mark_exhaustive("all octet strings of length %s" % ("3 (slice)" if "first_hi" in spec else "<= %d" % L_))
    elif kind == "strings81":
        # all strings of length 4 (and 3) that start with the BVLL type octet: the only ones that get past the type check
        n = 0
        fns = range(256) if spec["tier"] == "thorough" else list(range(16)) + [127, 128, 255]
        for fn in fns:
            for hi in range(256):
                for lo in range(256):
                    b = bytes((0x81, fn, hi, lo))
                    for s, m in check_receive(b):
                        ctx.fail(dict(k="recv", b=b.hex()), s, m)
                    n += 1
        ctx.bulk(n, n, "recv:len4-0x81", dict(k="recv", b="81060004"))
        ctx.mark_exhaustive("all 4-octet strings starting 0x81 with function in %s" % ("0..255" if spec["tier"] == "thorough" else "0..15,127,128,255"))
    elif kind == "mutated":
        from hypothesis import strategies as st
        emit, P = strategies()
        valid = emit.map(lambda c: R.encode(c["fn"], p_from_json(c["p"])))
        small = st.sampled_from(range(12)).flatmap(lambda fn: P[fn]).map(lambda p: p)
        mutated = st.builds(_mutate, valid, st.integers(0, 4), st.integers(0, 80), st.integers(0, 255))
        strat = st.one_of(mutated, st.binary(max_size=24).map(lambda b: b"\x81" + b)).map(lambda b: dict(k="recv", b=bytes(b).hex()))
        ctx.for_all(strat, spec["n"])
