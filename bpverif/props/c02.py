"""C02 -- tag streams are self-delimiting: framing is total, canonical and balanced."""
import itertools, signal
from ..runner import Verdict
from ..ref import asn1 as R

ID = "C02"
LEVEL = "exploration"
RULE = ("(a) Tag lists over class {application, context, opening, closing} x number {0..14,15,16,127,128,254,random} x data "
        "length {0..6,253,254,255,256,65535,65536,70000} (cross product enumerated for single tags, Hypothesis lists of 0..6 "
        "tags), application booleans carrying LVT 0/1 without data; (b) all octet strings of length <= 2 (<= 3 thorough), "
        "Hypothesis random strings <= 64 octets and flip/insert/delete/truncate mutations of valid encodings; (c) generated "
        "bracket sequences up to depth 4 with matching and mismatched numbers, missing and stray closes, interleaved leaves, "
        "all sequences of <= 5 symbols over a 7-symbol alphabet exhaustively. Oracle: (a) library octets == independent "
        "clause-20.2.1 encoder, decode gives the same list and consumes everything; (b) the decoder returns (within a "
        "watchdog) a list or raises InvalidTag, nothing else; accept/reject and every tag agree with the reference framer; "
        "re-encode/re-decode is a fixpoint; (c) TagList.get_context and Any.decode agree with a reference bracket model. "
        "Non-trivial: (a) a tag with extended length or extended number; (b) string yielding >= 2 tags or rejected after "
        ">= 1 complete tag; (c) depth >= 2 or a mismatch/stray/missing close. Distinct by octets / symbol sequence."
        " One reduced copy of a generated shard runs with the library's debug tracing switched on (label tracing-on).")
ASSUMPTIONS = [
    "bpverif/ref/asn1.py transcribes clause 20.2.1 framing correctly",
    "initial octets with LVT 6/7 but class bit 0, boolean value fields > 1, reserved number 255 and non-canonical length "
    "forms are framing-neutral leniencies: the reference reads them as the library does and only the re-encode fixpoint is required",
    "whether a closing tag whose number differs from its opening tag 'balances' is not fixed by the statement: both answers accepted (counted)",
]

_lib = None


def lib():
    global _lib
    if _lib is None:
        from bacpypes.primitivedata import Tag, TagList
        from bacpypes.constructeddata import Any
        from bacpypes.comm import PDUData
        from bacpypes.errors import InvalidTag, DecodingError
        _lib = (Tag, TagList, Any, PDUData, InvalidTag, DecodingError)
    return _lib


def pat(n, salt):
    if n <= 64:
        return bytes((i * 17 + salt) & 0xFF for i in range(n))
    unit = bytes((i * 17 + salt) & 0xFF for i in range(256))
    return (unit * (n // 256 + 1))[:n]


def data_of(d):
    if isinstance(d, str):
        return bytes.fromhex(d)
    return pat(d[1], d[2])


def tview(t):
    return (t.tagClass, t.tagNumber, t.tagLVT, bytes(t.tagData))


def tshort(t):
    return (t[0], t[1], t[2], t[3][:8].hex() + ("..." if len(t[3]) > 8 else ""))


def check_list(tags):
    """tags: list of (cls, num, lvt, data bytes)"""
    Tag, TagList, Any, PDUData, InvalidTag, DecodingError = lib()
    shape = "+".join(sorted(set("%s%s%s" % ("acoC"[t[0]], "X" if t[1] >= 15 else "", "L" if t[2] >= 5 and t[0] < 2 else "") for t in tags))) or "empty"
    try:
        tl = TagList([Tag(c, n, l, d) for c, n, l, d in tags])
        pdu = PDUData()
        tl.encode(pdu)
        octets = bytes(pdu.pduData)
    except Exception as err:
        return [("list:%s:encode-raised:%s" % (shape, type(err).__name__), "encoding %r raised %r" % ([tshort(t) for t in tags], err))]
    want = R.encode_tags(tags)
    if octets != want:
        n = min(len(octets), len(want))
        pos = next((i for i in range(n) if octets[i] != want[i]), n)
        return [("list:%s:encode-differs" % shape, "tags %r: library %s..., clause 20.2.1 %s... (first difference at octet %d)"
                 % ([tshort(t) for t in tags], octets[max(0, pos - 4):pos + 8].hex(), want[max(0, pos - 4):pos + 8].hex(), pos))]
    try:
        p2 = PDUData(octets)
        back = TagList(p2)
        got = [tview(t) for t in back.tagList]
        left = len(p2.pduData)
    except Exception as err:
        return [("list:%s:decode-raised:%s" % (shape, type(err).__name__), "decoding own encoding of %r raised %r" % ([tshort(t) for t in tags], err))]
    fails = []
    if left:
        fails.append(("list:%s:octets-left" % shape, "%d octets not consumed" % left))
    if got != [tuple(t) for t in tags]:
        fails.append(("list:%s:not-restored" % shape, "sent %r, decoded %r" % ([tshort(t) for t in tags], [tshort(t) for t in got])))
    return fails


class Stall(BaseException):
    pass


def _alarm(signum, frame):
    raise Stall()


def check_string(b):
    Tag, TagList, Any, PDUData, InvalidTag, DecodingError = lib()
    b = bytes(b)
    try:
        want, notes = R.decode_tags(b)
        why = None
    except R.Reject as rj:
        want, notes, why = None, set(), str(rj)
    try:
        got = [tview(t) for t in TagList(PDUData(b)).tagList]
    except InvalidTag:
        got = None
    except Stall:
        raise
    except Exception as err:
        return [("str:other-exception:%s" % type(err).__name__, "decoding %s raised %r (neither a list nor InvalidTag)" % (b[:32].hex(), err))], want, notes
    if want is None:
        if got is not None:
            return [("str:accepted-truncated", "%s accepted as %r although %s" % (b[:32].hex(), [tshort(t) for t in got], why))], want, notes
        return [], want, notes
    if got is None:
        return [("str:refused-valid", "%s is a complete tag stream %r but was refused" % (b[:32].hex(), [tshort(t) for t in want]))], want, notes
    if got != want:
        return [("str:misframed", "%s: library %r, reference %r" % (b[:32].hex(), [tshort(t) for t in got], [tshort(t) for t in want]))], want, notes
    # re-encode / re-decode fixpoint
    try:
        tl = TagList([Tag(*t) for t in got])
        p = PDUData()
        tl.encode(p)
        again = [tview(t) for t in TagList(PDUData(bytes(p.pduData))).tagList]
    except Exception as err:
        return [("str:reencode-raised:%s" % type(err).__name__, "%s: re-encoding %r raised %r" % (b[:32].hex(), [tshort(t) for t in got], err))], want, notes
    if again != got:
        return [("str:reencode-not-fixpoint", "%s decodes to %r which re-encodes to %s and decodes to %r"
                 % (b[:32].hex(), [tshort(t) for t in got], bytes(p.pduData)[:32].hex(), [tshort(t) for t in again]))], want, notes
    if not notes and bytes(p.pduData) != b:
        return [("str:canonical-not-reproduced", "%s is canonical but re-encodes as %s" % (b[:32].hex(), bytes(p.pduData)[:32].hex()))], want, notes
    return [], want, notes


SYM = {"a": (R.APP, 2), "c0": (R.CTX, 0), "c1": (R.CTX, 1), "o0": (R.OPEN, 0), "o1": (R.OPEN, 1), "C0": (R.CLOSE, 0), "C1": (R.CLOSE, 1),
       "c2": (R.CTX, 2), "o2": (R.OPEN, 2), "C2": (R.CLOSE, 2), "c9": (R.CTX, 19), "o9": (R.OPEN, 19), "C9": (R.CLOSE, 19)}


def check_nest(syms, ctx):
    Tag, TagList, Any, PDUData, InvalidTag, DecodingError = lib()
    tags = []
    for i, s in enumerate(syms):
        cls, num = SYM[s]
        if cls in (R.APP, R.CTX):
            tags.append((cls, num, 1, bytes([i])))
        else:
            tags.append((cls, num, 0, b""))
    fails = []
    # ---- get_context
    (model, mismatch) = R.get_context(tags, ctx)
    try:
        tl = TagList([Tag(*t) for t in tags])
        r = tl.get_context(ctx)
        if r is None:
            got = ("none",)
        elif isinstance(r, TagList):
            got = ("group", [tview(t) for t in r.tagList])
        else:
            got = ("tag", tview(r))
    except InvalidTag:
        got = ("invalid",)
    except Exception as err:
        return [("nest:get_context-raised:%s" % type(err).__name__, "%r get_context(%d) raised %r" % (syms, ctx, err))]
    if model[0] == "tag":
        exp = ("tag", tags[model[1]])
    elif model[0] == "group":
        exp = ("group", [tags[i] for i in model[1]])
    else:
        exp = model
    if got != exp and not (mismatch and got[0] == "invalid"):
        fails.append(("nest:get_context:%s-for-%s" % (got[0], exp[0]), "%r get_context(%d): library %r, model %r" % (syms, ctx, got, exp)))
    # ---- Any.decode
    ext = R.any_extent(tags)
    try:
        tl = TagList([Tag(*t) for t in tags])
        a = Any()
        a.decode(tl)
        got = ("ok", [tview(t) for t in a.tagList.tagList], [tview(t) for t in tl.tagList])
    except DecodingError:
        got = ("invalid",)
    except Exception as err:
        fails.append(("nest:any-raised:%s" % type(err).__name__, "%r Any.decode raised %r" % (syms, err)))
        return fails
    if ext[0] == "ok":
        exp = ("ok", tags[:ext[1]], tags[ext[1]:])
    else:
        exp = ext
    if got != exp:
        fails.append(("nest:any:%s-for-%s" % (got[0], exp[0]), "%r Any.decode: library %r, model %r" % (syms, got, exp)))
    elif got[0] == "ok":
        # Any.encode puts back exactly what was captured
        out = TagList()
        a.encode(out)
        if [tview(t) for t in out.tagList] != tags[:ext[1]]:
            fails.append(("nest:any:encode", "%r Any.encode returned %r" % (syms, [tview(t) for t in out.tagList])))
    return fails


def nest_nontrivial(syms):
    depth = mx = 0
    bad = False
    stack = []
    for s in syms:
        if s[0] == "o":
            depth += 1
            stack.append(s[1:])
            mx = max(mx, depth)
        elif s[0] == "C":
            depth -= 1
            if depth < 0 or not stack or stack.pop() != s[1:]:
                bad = True
            depth = max(depth, 0)
    return mx >= 2 or bad or depth > 0


# ---- judge ---------------------------------------------------------------------------------------

def judge(case):
    k = case["k"]
    if k == "list":
        tags = [(c, n, l, data_of(d)) for c, n, l, d in case["tags"]]
        nt = any((t[0] < 2 and t[2] >= 5 and not (t[0] == 0 and t[1] == 1)) or t[1] >= 15 for t in tags)
        return Verdict(check_list(tags), nt, ("list",))
    if k == "str":
        b = bytes.fromhex(case["b"])
        fails, want, notes = check_string(b)
        nt = (want is not None and len(want) >= 2) or (want is None and _complete_prefix(b))
        labels = ["str:accepted" if want is not None else "str:rejected"] + ["lenient:" + n for n in sorted(notes)]
        return Verdict(fails, nt, labels)
    if k == "nest":
        return Verdict(check_nest(case["syms"], case["ctx"]), nest_nontrivial(case["syms"]), ("nest",))
    raise ValueError(k)


def _complete_prefix(b):
    """rejected, but at least one complete tag precedes the damage"""
    for cut in range(len(b) - 1, 0, -1):
        try:
            tags, _ = R.decode_tags(b[:cut])
            return len(tags) >= 1
        except R.Reject:
            continue
    return False


# ---- generation --------------------------------------------------------------------------------------

NUMS = list(range(0, 15)) + [15, 16, 127, 128, 254]
LENS_Q = [0, 1, 2, 3, 4, 5, 6, 253, 254, 255, 256, 65535, 65536]
LENS_T = LENS_Q + [70000, 300, 1000, 65534]


def single_tag_space(lens):
    for cls in (R.APP, R.CTX, R.OPEN, R.CLOSE):
        for num in NUMS:
            if cls in (R.OPEN, R.CLOSE):
                yield (cls, num, 0, ["p", 0, 0])
            elif cls == R.APP and num == 1:
                yield (cls, num, 0, ["p", 0, 0])
                yield (cls, num, 1, ["p", 0, 0])
            else:
                for ln in lens:
                    yield (cls, num, ln, ["p", ln, num + ln])


def strategies(max_len):
    from hypothesis import strategies as st
    num = st.one_of(st.sampled_from(NUMS), st.integers(0, 254))
    ln = st.one_of(st.sampled_from([0, 1, 2, 3, 4, 5, 6, 253, 254, 255, 256]), st.integers(0, 300),
                   st.sampled_from([65535, 65536, 70000]) if max_len > 60000 else st.integers(0, 20))

    def mk(cls, n, l, salt):
        if cls in (R.OPEN, R.CLOSE):
            return [cls, n, 0, ["p", 0, 0]]
        if cls == R.APP and n == 1:
            return [cls, n, l % 2, ["p", 0, 0]]
        return [cls, n, l, ["p", l, salt]]
    tag = st.builds(mk, st.integers(0, 3), num, ln, st.integers(0, 255))
    taglist = st.lists(tag, max_size=6).map(lambda ts: dict(k="list", tags=ts))
    small_tag = st.builds(mk, st.integers(0, 3), num, st.integers(0, 8), st.integers(0, 255))
    valid = st.lists(small_tag, min_size=1, max_size=5).map(lambda ts: R.encode_tags([(c, n, l, data_of(d)) for c, n, l, d in ts]))
    return taglist, valid


def _mutate(b, op, pos, val):
    b = bytearray(b)
    if not b:
        return bytes(b)
    pos %= len(b)
    if op == 0:
        b[pos] = val
    elif op == 1:
        b.insert(pos, val)
    elif op == 2:
        del b[pos]
    elif op == 3:
        del b[pos:]
    else:
        b[pos] ^= 1 << (val & 7)
    return bytes(b)


def plan(tier, seed):
    specs = [dict(name="single-tags", kind="single", tier=tier)]
    for i in range(3):
        specs.append(dict(name="lists-%d" % i, kind="lists", n=1500 if tier == "quick" else 15000, big=(i == 0)))
    specs.append(dict(name="strings<=2", kind="strings", length=2))
    if tier == "thorough":
        for hi in range(16):
            specs.append(dict(name="strings3-%x" % hi, kind="strings", length=3, first_hi=hi))
    for i in range(4):
        specs.append(dict(name="random-%d" % i, kind="random", n=10000 if tier == "quick" else 150000))
    specs.append(dict(name="nest-exhaustive", kind="nestall", maxlen=5 if tier == "quick" else 6))
    for i in range(2):
        specs.append(dict(name="nest-random-%d" % i, kind="nestrandom", n=4000 if tier == "quick" else 50000))
    # once more with the library's debug tracing switched on
    specs.append(dict(name="tracing-lists", kind="lists", n=500 if tier == "quick" else 5000, big=False, tracing=True))
    specs.append(dict(name="tracing-random", kind="random", n=2000 if tier == "quick" else 20000, tracing=True))
    specs.append(dict(name="tracing-nest", kind="nestrandom", n=1000 if tier == "quick" else 10000, tracing=True))
    return specs


def run(spec, ctx):
    kind = spec["kind"]
    if kind == "single":
        lens = LENS_T if spec["tier"] == "thorough" else LENS_Q
        for t in single_tag_space(lens):
            ctx.check(dict(k="list", tags=[list(t)]))
        # pairs: an extended tag followed by a plain one (over-read shows up in the second tag)
        for t in single_tag_space([0, 5, 254, 65536]):
            ctx.check(dict(k="list", tags=[list(t), [R.CTX, 3, 2, ["p", 2, 9]], [R.CLOSE, 200, 0, ["p", 0, 0]]]))
        ctx.mark_exhaustive("class x number x length-boundary cross product for single tags")
    elif kind == "lists":
        taglist, valid = strategies(70000 if spec["big"] else 300)
        ctx.for_all(taglist, spec["n"] if not spec["big"] else max(200, spec["n"] // 8))
    elif kind == "strings":
        L_ = spec["length"]
        n = nt = 0
        if "first_hi" in spec:
            space = (bytes((a, b1, c)) for a in range(spec["first_hi"] * 16, spec["first_hi"] * 16 + 16)
                     for b1 in range(256) for c in range(256))
        else:
            space = itertools.chain([b""], (bytes(t) for ln in range(1, L_ + 1) for t in itertools.product(range(256), repeat=ln)))
        signal.signal(signal.SIGALRM, _alarm)
        b = b""
        try:
            for b in space:
                if n % 50000 == 0:
                    signal.alarm(120)       # 50 000 strings normally take well under a second
                fails, want, notes = check_string(b)
                n += 1
                if (want is not None and len(want) >= 2) or (want is None and len(b) >= 2 and _complete_prefix(b)):
                    nt += 1
                ctx.trail.append(b)
                for s, m in fails:
                    ctx.fail(dict(k="str", b=b.hex()), s, m, trail_case=lambda x: dict(k="str", b=x.hex()))
        except Stall:
            ctx.fail(dict(k="str", b=b.hex()), "str:non-termination", "decoder did not return within the watchdog on %s" % b.hex())
        finally:
            signal.alarm(0)
        ctx.bulk(n, nt, "str:short", dict(k="str", b="0909"))
        ctx.mark_exhaustive("all octet strings of length %s" % ("3 (slice)" if "first_hi" in spec else "<= %d" % L_))
    elif kind == "random":
        from hypothesis import strategies as st
        taglist, valid = strategies(300)
        mutated = st.builds(_mutate, valid, st.integers(0, 4), st.integers(0, 64), st.integers(0, 255))
        strat = st.one_of(st.binary(max_size=64), mutated, valid).map(lambda b: dict(k="str", b=bytes(b).hex()))
        ctx.for_all(strat, spec["n"])
    elif kind == "nestall":
        alphabet = ["a", "c0", "c1", "o0", "o1", "C0", "C1"]
        n = 0
        for ln in range(0, spec["maxlen"] + 1):
            for syms in itertools.product(alphabet, repeat=ln):
                for c in (0, 1):
                    ctx.check(dict(k="nest", syms=list(syms), ctx=c))
        ctx.mark_exhaustive("all bracket/leaf sequences of length <= %d over 7 symbols, both context numbers" % spec["maxlen"])
    elif kind == "nestrandom":
        from hypothesis import strategies as st
        syms = sorted(SYM)
        # balanced-ish generation: recursive groups with occasional damage
        leaf = st.sampled_from(["a", "c0", "c1", "c2", "c9"])

        def group(children):
            return st.tuples(st.sampled_from(["0", "1", "2", "9"]), st.lists(children, max_size=3),
                             st.sampled_from(["same", "same", "same", "other", "missing"])).map(
                lambda t: ["o" + t[0]] + [x for ch in t[1] for x in ch] + ([] if t[2] == "missing" else ["C" + (t[0] if t[2] == "same" else {"0": "1", "1": "2", "2": "9", "9": "0"}[t[0]])]))
        elem = st.recursive(leaf.map(lambda s: [s]), group, max_leaves=10)
        seq = st.lists(st.one_of(elem, st.sampled_from([["C0"], ["C1"]])), max_size=5).map(lambda l: [x for e in l for x in e])
        strat = st.tuples(seq, st.sampled_from([0, 1, 2, 19, 5])).map(lambda t: dict(k="nest", syms=t[0], ctx=t[1]))
        ctx.for_all(strat, spec["n"])
