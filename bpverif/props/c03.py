"""C03 -- every service PDU and constructed type round-trips and matches the standard."""
import json, os
from ..runner import Verdict, watchdog, Stall
from ..gen import values as V
from ..ref import asn1 as R
from .. import boot

ID = "C03"
LEVEL = "exploration"
RULE = ("Targets: the four service registries (confirmed requests, complex acks, unconfirmed requests, errors) and every Sequence / "
        "Choice subclass of apdu, basetypes and object. For each, a recursive Hypothesis strategy is built from the class's own "
        "sequenceElements / choiceElements: optional elements present or absent independently (classes with <= 6 optionals: ALL "
        "presence patterns enumerated), EVERY choice alternative forced, list lengths 0..3, depth <= 3, leaves from boundary "
        "tables, Any / AnyAtomic filled with generated atomic or constructed values of known types. Oracle per value: (1) encode "
        "succeeds; (2) decoding the octets into a fresh object (PDUs: through the registry class, trailing data must raise "
        "TooManyArguments) consumes every tag and yields a structurally equal value (schema-walking comparator); (3) re-encoding "
        "the decoded value gives identical octets; (4) an independent schema interpreter over golden/schema.json + the reference "
        "tag/primitive encoder gives identical octets, and the live tables must not have drifted from the golden ones; (5) the "
        "worked examples of Annex F (golden/annex_f.json) encode to exactly the published octets and decode to the published "
        "parameters. Non-trivial: value with an optional present and one absent, or a non-empty list, or a nested constructed "
        "element, or an Any holding > 1 tag. Distinct by octets."
        " Also: every value is encoded a second time from the same object; BACnetNameValue carries date-time pairs."
        " One reduced copy of a generated shard runs with the library's debug tracing switched on (label tracing-on).")
ASSUMPTIONS = [
    "golden/schema.json is a snapshot of the pinned tree's tables with the audited corrections listed in DESIGN.md; for un-audited base types it is a regression oracle",
    "values the constructors refuse are not generated; enumerated leaves compare by name when the number has one",
    "classes with hand-written codecs (NameValue, SequenceOfAny, ...) are exercised through the round-trip laws only where the schema walker can build them",
    "golden/annex_f.json holds only vectors that could be transcribed with confidence",
]

GOLDEN = os.path.join(boot.VERIF, "golden", "schema.json")
ANNEX_F = os.path.join(boot.VERIF, "golden", "annex_f.json")
_targets = None
_golden = None


def targets():
    """name -> (class, registry kind or None)"""
    global _targets
    if _targets is None:
        L = V.lib()
        A, B, O, C = L.A, L.B, L.O, L.C
        t = {}
        for kind, reg in (("confirmed", A.confirmed_request_types), ("complexack", A.complex_ack_types),
                          ("unconfirmed", A.unconfirmed_request_types), ("error", A.error_types)):
            for choice, k in sorted(reg.items()):
                t.setdefault(V.full_name(k), (k, []))[1].append((kind, choice))
        for mod in (A, B, O):
            for n in sorted(dir(mod)):
                k = getattr(mod, n)
                if isinstance(k, type) and issubclass(k, (C.Sequence, C.Choice)) and k.__module__ == mod.__name__ and k not in (C.Sequence, C.Choice):
                    if issubclass(k, getattr(O, "Object", ())):
                        continue
                    if not (getattr(k, "sequenceElements", None) or getattr(k, "choiceElements", None)):
                        continue
                    t.setdefault(V.full_name(k), (k, []))
        _targets = t
    return _targets


def golden():
    global _golden
    if _golden is None:
        with open(GOLDEN) as f:
            _golden = json.load(f)
    return _golden


def is_pdu(k):
    return issubclass(k, V.lib().A.APCISequence)


def carrier_for(k):
    A = V.lib().A
    if issubclass(k, A.ConfirmedRequestSequence):
        return A.ConfirmedRequestPDU
    if issubclass(k, A.ComplexAckSequence):
        return A.ComplexAckPDU
    if issubclass(k, A.UnconfirmedRequestSequence):
        return A.UnconfirmedRequestPDU
    if issubclass(k, A.ErrorSequence):
        return A.ErrorPDU
    return None


def encode_value(k, obj):
    L = V.lib()
    if is_pdu(k):
        x = carrier_for(k)()
        obj.encode(x)
        return bytes(x.pduData), x
    tl = L.P.TagList()
    obj.encode(tl)
    from bacpypes.comm import PDUData
    p = PDUData()
    tl.encode(p)
    return bytes(p.pduData), None


def decode_value(k, octets, header=None):
    L = V.lib()
    from bacpypes.comm import PDUData
    if is_pdu(k):
        x = carrier_for(k)()
        if header is not None:
            x.update(header)
        x.pduData = bytearray(octets)
        obj = k()
        obj.decode(x)
        return obj, 0
    tl = L.P.TagList(PDUData(octets))
    obj = k()
    obj.decode(tl)
    return obj, len(tl)


def check_value(name, plain):
    k = targets()[name][0]
    short = name.split(":")[-1]
    # 1. build + encode
    try:
        obj = V.to_lib(k, plain)
    except Exception as err:
        return [("build:%s:%s" % (short, type(err).__name__), "cannot build %s from %s: %r" % (short, _s(plain), err))], None
    try:
        octets, hdr = encode_value(k, obj)
    except Exception as err:
        return [("encode:%s:%s" % (short, type(err).__name__), "%s %s does not encode: %r" % (short, _s(plain), err))], None
    fails = []
    # 1b. the same unchanged object encodes to the same octets every time
    try:
        twice, _ = encode_value(k, obj)
        if twice != octets:
            return [("encode-twice:%s" % short, "%s %s: first encoding %s (%d octets), second encoding of the same object %s (%d octets)"
                     % (short, _s(plain), octets[:30].hex(), len(octets), twice[:30].hex(), len(twice)))], octets
    except Exception as err:
        return [("encode-twice:%s:%s" % (short, type(err).__name__), "%s %s: the second encoding of the same object raised %r" % (short, _s(plain), err))], octets
    # 2. decode
    try:
        back, left = decode_value(k, octets, hdr)
    except Exception as err:
        return [("decode:%s:%s" % (short, type(err).__name__), "%s %s -> %s does not decode: %r" % (short, _s(plain), octets[:40].hex(), err))], octets
    if left:
        fails.append(("decode:%s:tags-left" % short, "%d tags not consumed" % left))
    try:
        got = V.normalize(k, V.from_lib(k, back, plain))
        want = V.normalize(k, plain)
    except Exception as err:
        return [("compare:%s:%s" % (short, type(err).__name__), "%s %s: decoded value cannot be read back: %r" % (short, _s(plain), err))], octets
    if got != want:
        fails.append(("compare:%s:%s" % (short, _first_diff(want, got)), "%s: sent %s, decoded %s" % (short, _s(want), _s(got))))
    # 3. re-encode
    try:
        again, _ = encode_value(k, back)
        if again != octets:
            fails.append(("reencode:%s" % short, "%s: %s re-encodes as %s" % (short, octets[:40].hex(), again[:40].hex())))
    except Exception as err:
        fails.append(("reencode:%s:%s" % (short, type(err).__name__), "%s: decoded value does not re-encode: %r" % (short, err)))
    # 4. reference schema interpreter over the golden tables
    g = golden()
    tname = V.type_name(k)
    if tname in g["types"]:
        try:
            want_octets = V.ref_encode(tname, g["types"], V.normalize(k, plain) if False else plain)
            if want_octets != octets:
                n = min(len(octets), len(want_octets))
                pos = next((i for i in range(n) if octets[i] != want_octets[i]), n)
                fails.append(("differential:%s" % short, "%s %s: library %s, reference schema encoder %s (first difference at octet %d)"
                              % (short, _s(plain), octets[max(0, pos - 6):pos + 10].hex(), want_octets[max(0, pos - 6):pos + 10].hex(), pos)))
        except R.Reject as rj:
            fails.append(("differential:%s:reference-rejects" % short, "%s %s: %s" % (short, _s(plain), rj)))
        except KeyError as err:
            fails.append(("differential:%s:golden-incomplete" % short, "golden schema lacks %r" % (err,)))
    # trailing data must be refused for PDUs
    if is_pdu(k) and not fails:
        try:
            decode_value(k, octets + b"\x00", hdr)
            fails.append(("trailing-data-accepted:%s" % short, "%s accepts an extra tag after its parameters" % short))
        except Exception:
            pass
    return fails, octets


def _s(v):
    s = json.dumps(v, sort_keys=True) if not isinstance(v, str) else v
    return s if len(s) < 260 else s[:260] + "..."


def _first_diff(a, b, path=""):
    if type(a) != type(b):
        return path or "type"
    if isinstance(a, dict):
        for key in sorted(set(a) | set(b)):
            if key not in a or key not in b:
                return (path + "." + key).strip(".")
            d = _first_diff(a[key], b[key], path + "." + key if key not in ("seq", "list", "ch", "any") else path)
            if d:
                return d.strip(".")
        return ""
    if isinstance(a, list):
        if len(a) != len(b):
            return (path + ".len").strip(".")
        for i, (x, y) in enumerate(zip(a, b)):
            d = _first_diff(x, y, path)
            if d:
                return d
        return ""
    return "" if a == b else (path or "value").strip(".")


def nontrivial(k, plain, octets):
    def walk(p):
        if isinstance(p, dict):
            if "list" in p and p["list"]:
                return True
            if "seq" in p:
                return any(isinstance(v, dict) and ("seq" in v or "ch" in v or "any" in v) for v in p["seq"].values()) or any(walk(v) for v in p["seq"].values())
            if "ch" in p:
                return walk(p["ch"][1])
            if "any" in p:
                return isinstance(p["any"][1], dict) and ("seq" in p["any"][1] or "list" in p["any"][1])
        return False
    C = V.lib().C
    opt = [e for e in getattr(k, "sequenceElements", []) if e.optional]
    mixed = False
    if opt and isinstance(plain, dict) and "seq" in plain:
        pres = [e.name in plain["seq"] for e in opt]
        mixed = any(pres) and not all(pres)
    return mixed or walk(plain)


# ---- schema drift ---------------------------------------------------------------------------------------------------------------------

def check_drift(name):
    k = targets()[name][0]
    g = golden()
    tname = V.type_name(k)
    live = {}
    V.schema_of(k, live)
    fails = []
    if tname not in g["types"]:
        return [("schema:not-in-golden:%s" % tname, "class %s is not in the golden schema (new class?)" % tname)]
    for t, d in live.items():
        gd = g["types"].get(t)
        if gd is None:
            fails.append(("schema:not-in-golden:%s" % t, "type %s referenced by %s is not in the golden schema" % (t, tname)))
            continue
        if gd.get("handwritten"):
            continue            # hand-written codec: the element table is documentation, the round trip and the reference encoder judge it
        if json.loads(json.dumps(d)) != gd:
            what = "changed"
            if d.get("kind") in ("seq", "choice") and gd.get("kind") == d.get("kind"):
                le, ge = d["elements"], gd["elements"]
                for i in range(max(len(le), len(ge))):
                    if i >= len(le) or i >= len(ge) or le[i] != ge[i]:
                        what = "element %d: live %r, golden %r" % (i, le[i] if i < len(le) else None, ge[i] if i < len(ge) else None)
                        break
            elif d.get("kind") == "atomic" and d.get("enum") != gd.get("enum"):
                diff = [(n, d["enum"].get(n), gd["enum"].get(n)) for n in sorted(set(d.get("enum", {})) | set(gd.get("enum", {}))) if d.get("enum", {}).get(n) != gd.get("enum", {}).get(n)]
                what = "enumeration %r" % (diff[:3],)
            fails.append(("schema:drift:%s" % t, "live table of %s differs from the golden schema: %s" % (t, what)))
    # registration
    for kind, choice in targets()[name][1]:
        reg = g["registries"].get(kind, {})
        if reg.get(str(choice)) != tname:
            fails.append(("schema:registration:%s:%s" % (kind, choice), "%s service choice %d is %s, golden says %s" % (kind, choice, tname, reg.get(str(choice)))))
    return fails[:3]


def check_registries():
    g = golden()
    A = V.lib().A
    fails = []
    for kind, reg in (("confirmed", A.confirmed_request_types), ("complexack", A.complex_ack_types), ("unconfirmed", A.unconfirmed_request_types), ("error", A.error_types)):
        live = dict((str(c), V.type_name(k)) for c, k in reg.items())
        if live != g["registries"][kind]:
            diff = [(c, live.get(c), g["registries"][kind].get(c)) for c in sorted(set(live) | set(g["registries"][kind])) if live.get(c) != g["registries"][kind].get(c)]
            fails.append(("schema:registry:%s" % kind, "registry %s differs from the golden one: %r" % (kind, diff[:4])))
    return fails


# ---- Annex F ------------------------------------------------------------------------------------------------------------------------------

def check_vector(vec):
    """vec: dict(name, cls, plain, hex)"""
    name = vec["cls"]
    if name not in targets():
        return [("annexf:unknown-class:%s" % name, "")]
    k = targets()[name][0]
    want = bytes.fromhex(vec["hex"])
    try:
        obj = V.to_lib(k, vec["plain"])
        octets, hdr = encode_value(k, obj)
    except Exception as err:
        return [("annexf:%s:encode-raised:%s" % (vec["name"], type(err).__name__), repr(err))]
    fails = []
    if octets != want:
        fails.append(("annexf:%s:encode-differs" % vec["name"], "library %s, Annex F %s" % (octets.hex(), want.hex())))
    try:
        back, left = decode_value(k, want, hdr)
        got = V.normalize(k, V.from_lib(k, back, vec["plain"]))
        if got != V.normalize(k, vec["plain"]):
            fails.append(("annexf:%s:decode-differs" % vec["name"], "decoded %s, published %s" % (_s(got), _s(V.normalize(k, vec["plain"])))))
    except Exception as err:
        fails.append(("annexf:%s:decode-raised:%s" % (vec["name"], type(err).__name__), repr(err)))
    return fails


def judge(case):
    kk = case["k"]
    if kk == "val":
        try:
            with watchdog(30):
                fails, octets = check_value(case["cls"], case["v"])
        except Stall:
            return Verdict([("stall", case["cls"])], True, ("stall",))
        k = targets()[case["cls"]][0]
        return Verdict(fails, nontrivial(k, case["v"], octets), ("val",), key=(case["cls"], octets.hex() if octets else json.dumps(case["v"], sort_keys=True)))
    if kk == "drift":
        return Verdict(check_drift(case["cls"]), True, ("drift",))
    if kk == "registries":
        return Verdict(check_registries(), True, ("drift",))
    if kk == "annexf":
        return Verdict(check_vector(case["vec"]), True, ("annexf",))
    raise ValueError(kk)


# ---- generation --------------------------------------------------------------------------------------------------------------------------------

def plan(tier, seed):
    names = sorted(targets())
    nsh = 32
    specs = [dict(name="classes-%d" % i, kind="classes", classes=names[i::nsh], n=300 if tier == "quick" else 3000, tier=tier) for i in range(nsh)]
    specs.append(dict(name="schema", kind="schema"))
    specs.append(dict(name="annex-f", kind="annexf"))
    # once more with the library's debug tracing switched on
    for i in range(8):
        specs.append(dict(name="tracing-%d" % i, kind="classes", classes=names[i::8], n=30 if tier == "quick" else 300, tier="quick", tracing=True))
    specs.append(dict(name="tracing-annex-f", kind="annexf", tracing=True))
    return specs


def run(spec, ctx):
    from hypothesis import strategies as st
    if spec["kind"] == "classes":
        import itertools
        for name in spec["classes"]:
            k = targets()[name][0]
            salt = sum(map(ord, name)) & 0xFFFF
            try:
                base = V.strategy(k, 3)
            except Exception as err:
                ctx.fail(dict(k="val", cls=name, v=None), "strategy:%s:%s" % (name.split(":")[-1], type(err).__name__), repr(err))
                continue
            ctx.for_all(base.map(lambda v, name=name: dict(k="val", cls=name, v=v)), spec["n"], salt=salt)
            # every presence pattern of the optional elements
            opt = [e.name for e in getattr(k, "sequenceElements", []) if e.optional]
            if 0 < len(opt) <= (6 if spec["tier"] == "quick" else 8):
                for pattern in itertools.product((False, True), repeat=len(opt)):
                    pres = dict(zip(opt, pattern))
                    s = V.strategy(k, 2, presence=lambda n, pres=pres: pres.get(n))
                    ctx.for_all(s.map(lambda v, name=name: dict(k="val", cls=name, v=v)), 3 if spec["tier"] == "quick" else 12, salt=salt + 1)
            # every choice alternative
            if issubclass(k, V.lib().C.Choice):
                for e in k.choiceElements:
                    s = V.strategy(e.klass, 2).map(lambda v, e=e, name=name: dict(k="val", cls=name, v={"ch": [e.name, v]}))
                    ctx.for_all(s, 4 if spec["tier"] == "quick" else 25, salt=salt + 2)
        ctx.mark_exhaustive("all presence patterns of optionals (classes with few optionals) and every choice alternative")
    elif spec["kind"] == "schema":
        ctx.check(dict(k="registries"))
        for name in sorted(targets()):
            ctx.check(dict(k="drift", cls=name))
        ctx.mark_exhaustive("live schema tables of every target class against golden/schema.json")
    elif spec["kind"] == "annexf":
        with open(ANNEX_F) as f:
            vecs = json.load(f)["vectors"]
        for vec in vecs:
            ctx.check(dict(k="annexf", vec=vec))
        ctx.mark_exhaustive("all transcribed Annex F vectors")
