"""C19 -- routing knowledge stays coherent: one next hop per destination, newest wins."""
import itertools
from ..runner import Verdict
from ..ref import npci as RN

ID = "C19"
LEVEL = "exploration"
RULE = ("Histories over {learn(snet, router, dnets), forget-router(snet, router), forget-destinations(snet[, router], dnets), "
        "renumber(snet -> unused number), lookup} with 2 source networks x 3 routers x 4 destinations applied to a real "
        "RouterInfoCache: ALL sequences up to length 3 on a 92-symbol alphabet and up to length 4 (quick) / 6 (thorough) on a "
        "15-symbol single-network alphabet, Hypothesis sequences of length <= 300. The same kind of history is driven into a "
        "real NetworkServiceAccessPoint + NetworkServiceElement through encoded network-layer frames: I-Am-Router-To-Network "
        "from spoofed router MACs, routed traffic revealing SADRs, Network-Number-Is renumbering of a learned network, the "
        "public delete API; afterwards an application PDU is sent to every destination. Oracle: dict model (snet, dnet) -> "
        "router; after every operation every lookup equals the model, the two indexes agree (a destination credited to router R "
        "under S <=> lookup(S, d) is R's record <=> R is listed under S), no operation raises; on the wire the next-hop MAC of "
        "each emitted frame equals the model's router and unknown destinations produce Who-Is-Router-To-Network instead of a "
        "stale hop. The same message-driven histories run on a node with TWO attached networks (announcements and routed traffic arrive "
        "on either port; knowledge is per (attached network, destination); traffic must leave on a network that knows a next hop, toward "
        "that router). Non-trivial: history in which a learn displaces another router, or a deletion/renumbering follows a learn. "
        "Distinct by the operation sequence."
        " Also: requests sent while the history is going on (each must have left exactly once when its network is known); routed network-layer messages as learning events."
        " Announcements naming a network the node is itself attached to. One reduced copy of a generated shard runs with the library's debug tracing switched on (label tracing-on).")
ASSUMPTIONS = [
    "renumbering onto a number already in use is excluded (two ports with one network number violate a BACnet invariant)",
    "index agreement reads RouterInfoCache.routers / path_info (the state named in the property's anchors); if those attributes "
    "disappear the lookup-vs-model comparison still runs",
    "bpverif/ref/npci.py decodes the frames on the recording wire",
]

_lib = None


class _L(object):
    pass


def lib():
    global _lib
    if _lib is None:
        L = _L()
        from .. import clock as VC
        VC.install(0.0)
        L.VC = VC
        from bacpypes import netservice as NS
        from bacpypes.pdu import Address, LocalStation, LocalBroadcast, RemoteStation, RemoteBroadcast, PDU
        from bacpypes.comm import Client, Server, bind
        from bacpypes.npdu import NPDU
        L.NS, L.Address, L.LocalStation, L.LocalBroadcast, L.RemoteStation, L.RemoteBroadcast, L.PDU = NS, Address, LocalStation, LocalBroadcast, RemoteStation, RemoteBroadcast, PDU
        L.bind = bind

        class Wire(Server):
            def __init__(self):
                Server.__init__(self)
                self.sent = []

            def indication(self, pdu):
                self.sent.append((pdu.pduDestination, bytes(pdu.pduData)))

        class App(Client):
            def __init__(self):
                Client.__init__(self)
                self.got = []

            def confirmation(self, pdu):
                self.got.append(pdu)
        L.Wire, L.App = Wire, App
        _lib = L
    return _lib


ROUTERS = {"A": 11, "B": 12, "C": 13}


def model_apply(model, op):
    """model: dict (snet, dnet) -> router name"""
    k = op[0]
    if k == "learn":
        _, s, r, ds = op
        for d in ds:
            model[(s, d)] = r
    elif k == "forget_router":
        _, s, r = op
        for key in [key for key, v in model.items() if key[0] == s and v == r]:
            del model[key]
    elif k == "forget_dnets":
        _, s, r, ds = op
        for d in ds:
            if (s, d) in model and (r is None or model[(s, d)] == r):
                del model[(s, d)]
    elif k == "renumber":
        _, old, new = op
        for key in [key for key in model if key[0] == old]:
            model[(new, key[1])] = model.pop(key)


def nets_alive(ops):
    """current source network numbers after the renumber ops"""
    cur = {1: 1, 2: 2}
    for op in ops:
        if op[0] == "renumber":
            for k, v in cur.items():
                if v == op[1]:
                    cur[k] = op[2]
    return cur


def check_cache(ops):
    L = lib()
    cache = L.NS.RouterInfoCache()
    addr = dict((n, L.LocalStation(m)) for n, m in ROUTERS.items())
    model = {}
    universe_s = set([1, 2, 7, 8])
    universe_d = (10, 20, 30, 40)
    for i, op in enumerate(ops):
        k = op[0]
        try:
            if k == "learn":
                cache.update_router_info(op[1], addr[op[2]], list(op[3]))
            elif k == "forget_router":
                cache.delete_router_info(op[1], addr[op[2]])
            elif k == "forget_dnets":
                cache.delete_router_info(op[1], addr[op[2]] if op[2] else None, list(op[3]))
            elif k == "renumber":
                cache.update_source_network(op[1], op[2])
        except Exception as err:
            return [("cache:%s:raised:%s" % (k, type(err).__name__), "history %r: step %d %r raised %r" % (ops[:i + 1], i, op, err))]
        model_apply(model, op)
        # lookups
        for s in universe_s:
            for d in universe_d:
                ri = cache.get_router_info(s, d)
                want = model.get((s, d))
                got = None
                if ri is not None:
                    got = next((n for n, a in addr.items() if a == ri.address), "?")
                if got != want:
                    kind = "stale-path" if want is None else ("lost-path" if got is None else "wrong-router")
                    return [("cache:%s:%s" % (k, kind), "history %r: lookup(%d,%d) gives %r, model says %r" % (ops[:i + 1], s, d, got, want))]
                if ri is not None and d not in getattr(ri, "dnets", {d: 0}):
                    return [("cache:%s:path-not-credited" % k, "history %r: lookup(%d,%d) leads to %s whose record does not list %d" % (ops[:i + 1], s, d, got, d))]
        # index agreement
        routers = getattr(cache, "routers", None)
        if isinstance(routers, dict):
            for s, recs in routers.items():
                for a, ri in recs.items():
                    name = next((n for n, x in addr.items() if x == a), "?")
                    for d in ri.dnets:
                        if cache.get_router_info(s, d) is not ri:
                            return [("cache:%s:credited-but-not-reachable" % k, "history %r: router %s under %r is credited with %d but lookup gives %r"
                                     % (ops[:i + 1], name, s, d, cache.get_router_info(s, d)))]
            for (s, d), ri in getattr(cache, "path_info", {}).items():
                if routers.get(s, {}).get(ri.address) is not ri:
                    return [("cache:%s:path-to-unlisted-router" % k, "history %r: path (%r,%r) leads to a router not listed under %r" % (ops[:i + 1], s, d, s))]
    return []


def cache_nontrivial(ops):
    model = {}
    nt = False
    learned = False
    for op in ops:
        if op[0] == "learn":
            if any((op[1], d) in model and model[(op[1], d)] != op[2] for d in op[3]):
                nt = True
            learned = True
        elif learned:
            nt = True
        model_apply(model, op)
    return nt


# ---- message driven -----------------------------------------------------------------------------------------

def _tok(n):
    """what a Who-Is limited to device instance n..n carries"""
    b = n.to_bytes(2, "big")
    return b"\x0a" + b + b"\x1a" + b


def check_node(hist, learned_net):
    """hist: list of steps driven into a real NSAP+NSE through frames on a recording wire:
       ["iam", router, [dnets]]           I-Am-Router-To-Network from the router's MAC (local broadcast)
       ["sadr", router, dnet]             an application frame arriving via `router` with SADR on network dnet
       ["forget_router", router]          nsap.delete_router_references(net, router address)
       ["forget_dnets", router|None, [dnets]]
       ["nni", newnet]                    Network-Number-Is broadcast (only when the network number was learned)
       then an application PDU is sent to every destination network and the next hop is read off the wire."""
    L = lib()
    L.VC.reset(0.0)
    NS = L.NS
    NS.NetworkServiceElement._startup_disabled = True
    nsap = NS.NetworkServiceAccessPoint()
    nse = NS.NetworkServiceElement()
    L.bind(nse, nsap)
    wire = L.Wire()
    app = L.App()
    L.bind(app, nsap)
    me = L.LocalStation(5)
    mynet = 1
    if learned_net:
        nsap.bind(wire, None, me)
    else:
        nsap.bind(wire, 1, me)
    model = {}                 # dnet -> router name
    mid_tokens = []            # (dnet, token) of requests sent while the history was going on
    early = []                 # frames seen on the wire during the history

    def inject(src_mac, frame, bcast):
        early.extend(wire.sent)
        del wire.sent[:]
        pdu = L.PDU(frame, source=L.LocalStation(src_mac), destination=L.LocalBroadcast() if bcast else me)
        wire.response(pdu)
        L.VC.settle()

    steps = list(hist)
    if learned_net:
        steps = [["nni", 1]] + steps
    for i, st_ in enumerate(steps):
        k = st_[0]
        try:
            if k == "iam":
                frame = RN.encode(dict(msg=1, vendor=None, dadr=None, sadr=None, er=False, prio=0, hop=None,
                                       data=RN.encode_msg(1, dict(nets=st_[2]))))
                inject(ROUTERS[st_[1]], frame, True)
                for d in st_[2]:
                    model[d] = st_[1]
            elif k == "sadr":
                # an unconfirmed application message (Who-Is) routed to us from a station on network dnet
                frame = RN.encode(dict(msg=None, vendor=None, dadr=None, sadr=(st_[2], b"\x21"), er=False, prio=0, hop=None, data=b"\x10\x08"))
                inject(ROUTERS[st_[1]], frame, False)
                model[st_[2]] = st_[1]
            elif k == "sadrmsg":
                # a network-layer message (Who-Is-Router-To-Network for some far network, passed along by a router) reveals its source network too
                frame = RN.encode(dict(msg=0, vendor=None, dadr=None, sadr=(st_[2], b"\x21"), er=False, prio=0, hop=None, data=RN.encode_msg(0, dict(net=77))))
                inject(ROUTERS[st_[1]], frame, True)
                model[st_[2]] = st_[1]
            elif k == "send":
                # the application sends while the history is still going on (parked until a path is known, if need be)
                from bacpypes.apdu import WhoIsRequest as _W
                mid_tokens.append((st_[1], 1000 + len(mid_tokens)))
                rq = _W(deviceInstanceRangeLowLimit=mid_tokens[-1][1], deviceInstanceRangeHighLimit=mid_tokens[-1][1])
                rq.pduDestination = L.RemoteStation(st_[1], 33)
                app.request(rq)
                L.VC.settle()
                early.extend(wire.sent)
                del wire.sent[:]
            elif k == "forget_router":
                nsap.delete_router_references(mynet, L.LocalStation(ROUTERS[st_[1]]))
                for d in [d for d, r in model.items() if r == st_[1]]:
                    del model[d]
            elif k == "forget_dnets":
                nsap.delete_router_references(mynet, L.LocalStation(ROUTERS[st_[1]]) if st_[1] else None, list(st_[2]))
                for d in st_[2]:
                    if d in model and (st_[1] is None or model[d] == st_[1]):
                        del model[d]
            elif k == "nni":
                frame = RN.encode(dict(msg=0x13, vendor=None, dadr=None, sadr=None, er=False, prio=0, hop=None,
                                       data=RN.encode_msg(0x13, dict(net=st_[1], flag=0))))
                inject(ROUTERS["C"], frame, True)
                if learned_net:
                    mynet = st_[1]
        except Exception as err:
            return [("node:%s:raised:%s" % (k, type(err).__name__), "history %r (learned=%r): step %r raised %r" % (hist, learned_net, st_, err))]
        sw = [r for r in L.VC.boot.swallowed.take() if r[0]]
        if sw:
            return [("node:%s:swallowed:%s:%s" % (k, sw[0][0], sw[0][1]), "history %r: step %r made the stack raise %r" % (hist, st_, sw[0]))]
    # traffic follows the current knowledge
    from bacpypes.apdu import WhoIsRequest
    fails = []
    for d in (10, 20, 30, 40):
        early.extend(wire.sent)
        del wire.sent[:]
        try:
            req = WhoIsRequest()
            req.pduDestination = L.RemoteStation(d, 33)
            app.request(req)
            L.VC.settle()
        except Exception as err:
            return [("node:send:raised:%s" % type(err).__name__, "history %r: sending to network %d raised %r" % (hist, d, err))]
        hops = []
        whois = False
        released = []
        for dest, frame in wire.sent:
            h = RN.decode(frame)
            if h["msg"] == 0:
                whois = True
            elif h["msg"] is None and any(_tok(tk) in bytes(h["data"]) for dd, tk in mid_tokens):
                released.append((dest, h))       # a request parked earlier, released now that the path is known
            elif h["msg"] is None:
                hops.append((dest, h))
        want = model.get(d)
        if want is not None:
            # everything the application sent to this network during the history has left by now, once, toward the current router
            for dd, tk in mid_tokens:
                if dd != d:
                    continue
                n_ = sum(1 for dest, frame in early + list(wire.sent) if RN.decode(frame)["msg"] is None and _tok(tk) in bytes(RN.decode(frame)["data"]))
                if n_ != 1:
                    fails.append(("node:parked-request-%s" % ("never-sent" if n_ == 0 else "sent-twice"), "history %r: the request sent to network %d during the history left the node %d times although %s is known as its router"
                                  % (hist, d, n_, want)))
                    break
            for dest, h in released:
                if dest != L.LocalStation(ROUTERS[want]):
                    fails.append(("node:wrong-next-hop:released", "history %r: a parked request for network %d was released toward %s, the router is %s" % (hist, d, dest, want)))
        if want is None:
            if hops:
                name = next((n for n, m in ROUTERS.items() if hops[0][0] == L.LocalStation(m)), str(hops[0][0]))
                fails.append(("node:stale-hop", "history %r: nothing is known about network %d but the frame went to %s" % (hist, d, name)))
            elif not whois and d not in [st_[1] for st_ in steps if st_[0] == "send"]:
                fails.append(("node:no-discovery", "history %r: network %d unknown, yet no Who-Is-Router-To-Network went out" % (hist, d)))
        else:
            if len(hops) != 1:
                fails.append(("node:%s" % ("no-frame" if not hops else "duplicate-frames"), "history %r: network %d is reachable via %s but %d frames went out (discovery instead: %r)"
                              % (hist, d, want, len(hops), whois)))
            else:
                dest, h = hops[0]
                if dest != L.LocalStation(ROUTERS[want]):
                    fails.append(("node:wrong-next-hop", "history %r: network %d should go via %s (MAC %d) but went to %s" % (hist, d, want, ROUTERS[want], dest)))
                elif h["dadr"] != ("rs", d, b"\x21"):
                    fails.append(("node:wrong-dadr", "history %r: DADR %r" % (hist, h["dadr"])))
        if fails:
            break
    nsap.pending_nets.clear()
    return fails



def check_node2(hist):
    """the same on a node with TWO attached networks (1 and 2; the application sits on network 2, bound last): steps
       ["iam", port, router, [dnets]] | ["sadr", port, router, dnet] | ["forget_router", port, router] | ["forget_dnets", port, router|None, [dnets]];
       knowledge is kept per (attached network, destination); afterwards traffic to each destination must leave on an attached
       network that knows a next hop for it, toward exactly that router."""
    L = lib()
    L.VC.reset(0.0)
    NS = L.NS
    NS.NetworkServiceElement._startup_disabled = True
    nsap = NS.NetworkServiceAccessPoint()
    nse = NS.NetworkServiceElement()
    L.bind(nse, nsap)
    wires = [L.Wire(), L.Wire()]
    app = L.App()
    L.bind(app, nsap)
    me = [L.LocalStation(5), L.LocalStation(6)]
    nets = [1, 2]
    nsap.bind(wires[0], 1, me[0])
    nsap.bind(wires[1], 2, me[1])
    model = {}                 # (attached net, dnet) -> router name
    mid_tokens = []
    early = []

    def inject(port, src_mac, frame, bcast):
        pdu = L.PDU(frame, source=L.LocalStation(src_mac), destination=L.LocalBroadcast() if bcast else me[port])
        wires[port].response(pdu)
        L.VC.settle()

    for st_ in hist:
        k = st_[0]
        port = st_[1]
        try:
            if k == "iam":
                frame = RN.encode(dict(msg=1, vendor=None, dadr=None, sadr=None, er=False, prio=0, hop=None, data=RN.encode_msg(1, dict(nets=st_[3]))))
                inject(port, ROUTERS[st_[2]], frame, True)
                for d in st_[3]:
                    if d not in nets:
                        model[(nets[port], d)] = st_[2]
            elif k == "sadr":
                frame = RN.encode(dict(msg=None, vendor=None, dadr=None, sadr=(st_[3], b"\x21"), er=False, prio=0, hop=None, data=b"\x10\x08"))
                inject(port, ROUTERS[st_[2]], frame, False)
                model[(nets[port], st_[3])] = st_[2]
            elif k == "sadrmsg":
                frame = RN.encode(dict(msg=0, vendor=None, dadr=None, sadr=(st_[3], b"\x21"), er=False, prio=0, hop=None, data=RN.encode_msg(0, dict(net=77))))
                inject(port, ROUTERS[st_[2]], frame, True)
                model[(nets[port], st_[3])] = st_[2]
            elif k == "send":
                from bacpypes.apdu import WhoIsRequest as _W
                mid_tokens.append((st_[2], 1000 + len(mid_tokens)))
                rq = _W(deviceInstanceRangeLowLimit=mid_tokens[-1][1], deviceInstanceRangeHighLimit=mid_tokens[-1][1])
                rq.pduDestination = L.RemoteStation(st_[2], 33)
                app.request(rq)
                L.VC.settle()
            elif k == "forget_router":
                nsap.delete_router_references(nets[port], L.LocalStation(ROUTERS[st_[2]]))
                for key in [key for key, r in model.items() if key[0] == nets[port] and r == st_[2]]:
                    del model[key]
            elif k == "forget_dnets":
                nsap.delete_router_references(nets[port], L.LocalStation(ROUTERS[st_[2]]) if st_[2] else None, list(st_[3]))
                for d in st_[3]:
                    if (nets[port], d) in model and (st_[2] is None or model[(nets[port], d)] == st_[2]):
                        del model[(nets[port], d)]
        except Exception as err:
            return [("node2:%s:raised:%s" % (k, type(err).__name__), "history %r: step %r raised %r" % (hist, st_, err))]
        sw = [r for r in L.VC.boot.swallowed.take() if r[0]]
        if sw:
            return [("node2:%s:swallowed:%s:%s" % (k, sw[0][0], sw[0][1]), "history %r: step %r made the stack raise %r" % (hist, st_, sw[0]))]
        for pi_, w in enumerate(wires):
            early.extend((nets[pi_], dest, frame) for dest, frame in w.sent)
            del w.sent[:]       # (a router relays announcements; not the subject here)
    # lookups agree with the model, pair by pair
    fails = []
    for an in nets:
        for d in (10, 20, 30):
            ri = nsap.router_info_cache.get_router_info(an, d)
            want = model.get((an, d))
            got = None
            if ri is not None:
                got = next((n for n, m in ROUTERS.items() if ri.address == L.LocalStation(m)), str(ri.address))
            if got != want:
                return [("node2:lookup:%s" % ("missing" if got is None else "stale" if want is None else "wrong-router"),
                         "history %r: (attached network %d, destination %d) should lead to %r, the cache says %r" % (hist, an, d, want, got))]
    from bacpypes.apdu import WhoIsRequest
    for d in (10, 20, 30):
        for pi_, w in enumerate(wires):
            early.extend((nets[pi_], dest, frame) for dest, frame in w.sent)
            del w.sent[:]
        try:
            req = WhoIsRequest()
            req.pduDestination = L.RemoteStation(d, 33)
            app.request(req)
            L.VC.settle()
        except Exception as err:
            return [("node2:send:raised:%s" % type(err).__name__, "history %r: sending to network %d raised %r" % (hist, d, err))]
        hops = []
        now_sent = []
        for pi, w in enumerate(wires):
            for dest, frame in w.sent:
                h = RN.decode(frame)
                now_sent.append((nets[pi], dest, frame))
                if h["msg"] is None and not any(_tok(tk) in bytes(h["data"]) for dd, tk in mid_tokens):
                    hops.append((nets[pi], dest))
        ok = [(an, L.LocalStation(ROUTERS[r])) for (an, dd), r in model.items() if dd == d]
        if ok:
            for dd, tk in mid_tokens:
                if dd != d:
                    continue
                where = [(an, dest) for an, dest, frame in early + now_sent if RN.decode(frame)["msg"] is None and _tok(tk) in bytes(RN.decode(frame)["data"])]
                if len(where) != 1:
                    fails.append(("node2:parked-request-%s" % ("never-sent" if not where else "sent-twice"), "history %r: the request sent to network %d during the history left the node %d times although a path is known (%r)"
                                  % (hist, d, len(where), ok)))
                    break
        if not ok:
            if hops:
                fails.append(("node2:stale-hop", "history %r: nothing is known about network %d but a frame left on network %d for %s" % (hist, d, hops[0][0], hops[0][1])))
        elif len(hops) != 1:
            fails.append(("node2:%s" % ("no-frame" if not hops else "duplicate-frames"), "history %r: network %d is known via %r but %d frames went out" % (hist, d, ok, len(hops))))
        elif hops[0] not in ok:
            fails.append(("node2:wrong-next-hop", "history %r: the frame for network %d left on network %d for %s; the knowledge says %r" % (hist, d, hops[0][0], hops[0][1], ok)))
        if fails:
            break
    nsap.pending_nets.clear()
    return fails


def node_nontrivial(hist):
    seen = {}
    nt = False
    for st_ in hist:
        if st_[0] == "iam":
            for d in st_[2]:
                if d in seen and seen[d] != st_[1]:
                    nt = True
                seen[d] = st_[1]
        elif st_[0] == "sadr":
            if st_[2] in seen and seen[st_[2]] != st_[1]:
                nt = True
            seen[st_[2]] = st_[1]
        elif seen:
            nt = True
    return nt


def judge(case):
    k = case["k"]
    if k == "cache":
        ops = [tuple(o) for o in case["ops"]]
        return Verdict(check_cache(ops), cache_nontrivial(ops), ("cache",))
    if k == "node":
        return Verdict(check_node(case["hist"], case.get("learned", False)), node_nontrivial(case["hist"]),
                       ("node:learned" if case.get("learned") else "node:configured",))
    if k == "node2":
        h = case["hist"]
        nt = len(set((st_[1], tuple(st_[3]) if isinstance(st_[3], list) else st_[3]) for st_ in h if st_[0] in ("iam", "sadr"))) > 1 or any(st_[0].startswith("forget") for st_ in h)
        return Verdict(check_node2(h), nt, ("node:two-ports",))
    raise ValueError(k)


# ---- generation -------------------------------------------------------------------------------------------------------

DSETS = ([10], [20], [30], [40], [10, 20], [10, 20, 30, 40])


def full_alphabet():
    a = []
    for s in (1, 2):
        for r in "ABC":
            for ds in DSETS:
                a.append(["learn", s, r, ds])
            a.append(["forget_router", s, r])
        for r in ("A", "B", "C", None):
            for ds in DSETS:
                a.append(["forget_dnets", s, r, ds])
    a.append(["renumber", 1, 7])
    a.append(["renumber", 2, 8])
    return a


def small_alphabet():
    a = []
    for r in "AB":
        for ds in ([10], [20], [10, 20]):
            a.append(["learn", 1, r, ds])
        a.append(["forget_router", 1, r])
    for r in ("A", "B", None):
        for ds in ([10], [20]):
            a.append(["forget_dnets", 1, r, ds])
    a.append(["renumber", 1, 7])
    return a


def valid_renumbers(ops):
    """a renumber is only meaningful while its source number is current and the target unused"""
    cur = set([1, 2])
    for op in ops:
        if op[0] == "renumber":
            if op[1] not in cur or op[2] in cur:
                return False
            cur.discard(op[1])
            cur.add(op[2])
        elif op[1] not in cur:
            return False
    return True


def node_alphabet():
    a = []
    for r in "ABC":
        for ds in ([10], [20], [10, 20], [10, 20, 30]):
            a.append(["iam", r, ds])
        a.append(["forget_router", r])
        for d in (10, 20):
            a.append(["sadr", r, d])
        a.append(["sadrmsg", r, 10])
    for r in ("A", "B", None):
        for ds in ([10], [20], [10, 30]):
            a.append(["forget_dnets", r, ds])
    a.append(["send", 10])
    a.append(["send", 20])
    return a


def node2_alphabet():
    a = []
    for port in (0, 1):
        for r in "AB":
            for ds in ([10], [20], [10, 20]):
                a.append(["iam", port, r, ds])
            # an announcement that also names the OTHER attached network of this node (a parallel router between the two would say so)
            a.append(["iam", port, r, [2 if port == 0 else 1, 10]])
            a.append(["iam", port, r, [20, 2 if port == 0 else 1]])
            a.append(["forget_router", port, r])
            for d in (10, 20):
                a.append(["sadr", port, r, d])
            a.append(["sadrmsg", port, r, 10])
        for r in ("A", None):
            for ds in ([10], [10, 20]):
                a.append(["forget_dnets", port, r, ds])
    a.append(["send", 0, 10])
    a.append(["send", 0, 20])
    return a


def plan(tier, seed):
    specs = []
    fa = full_alphabet()
    for s in range(16):
        specs.append(dict(name="cache-full-%d" % s, kind="cacheall", alpha="full", first=list(range(s, len(fa), 16)), maxlen=3))
    sa = small_alphabet()
    for s in range(len(sa)):
        specs.append(dict(name="cache-small-%d" % s, kind="cacheall", alpha="small", first=[s], maxlen=4 if tier == "quick" else 6))
    for i in range(3):
        specs.append(dict(name="cache-random-%d" % i, kind="cacherandom", n=150 if tier == "quick" else 10000))
    na = node_alphabet()
    for s in range(8):
        specs.append(dict(name="node-all-%d" % s, kind="nodeall", first=list(range(s, len(na), 8)), maxlen=2 if tier == "quick" else 3))
    for i in range(3):
        specs.append(dict(name="node-random-%d" % i, kind="noderandom", n=800 if tier == "quick" else 20000))
    n2 = node2_alphabet()
    for s in range(6):
        specs.append(dict(name="node2-all-%d" % s, kind="node2all", first=list(range(s, len(n2), 6)), maxlen=3 if tier == "quick" else 4))
    for i in range(2):
        specs.append(dict(name="node2-random-%d" % i, kind="node2random", n=1000 if tier == "quick" else 20000))
    # once more with the library's debug tracing switched on
    specs.append(dict(name="tracing-cache-random", kind="cacherandom", n=60 if tier == "quick" else 3000, tracing=True))
    specs.append(dict(name="tracing-node-random", kind="noderandom", n=200 if tier == "quick" else 5000, tracing=True))
    specs.append(dict(name="tracing-node2-random", kind="node2random", n=200 if tier == "quick" else 5000, tracing=True))
    return specs


def run(spec, ctx):
    kind = spec["kind"]
    if kind == "cacheall":
        alpha = full_alphabet() if spec["alpha"] == "full" else small_alphabet()
        for ln in range(1, spec["maxlen"] + 1):
            for f in spec["first"]:
                for rest in itertools.product(range(len(alpha)), repeat=ln - 1):
                    ops = [alpha[f]] + [alpha[i] for i in rest]
                    if not valid_renumbers(ops):
                        continue
                    ctx.check(dict(k="cache", ops=ops))
        ctx.mark_exhaustive("all cache histories up to length %d on the %s alphabet" % (spec["maxlen"], spec["alpha"]))
    elif kind == "cacherandom":
        from hypothesis import strategies as st
        alpha = full_alphabet()
        strat = st.lists(st.sampled_from(alpha), min_size=1, max_size=300).map(_fix_renumbers).map(lambda ops: dict(k="cache", ops=ops))
        ctx.for_all(strat, spec["n"])
    elif kind == "nodeall":
        alpha = node_alphabet()
        for ln in range(1, spec["maxlen"] + 1):
            for f in spec["first"]:
                for rest in itertools.product(range(len(alpha)), repeat=ln - 1):
                    hist = [alpha[f]] + [alpha[i] for i in rest]
                    ctx.check(dict(k="node", hist=hist, learned=False))
        ctx.mark_exhaustive("all message-driven histories up to length %d" % spec["maxlen"])
    elif kind == "node2all":
        alpha = node2_alphabet()
        for ln in range(1, spec["maxlen"] + 1):
            for f in spec["first"]:
                for rest in itertools.product(range(len(alpha)), repeat=ln - 1):
                    ctx.check(dict(k="node2", hist=[alpha[f]] + [alpha[i] for i in rest]))
        ctx.mark_exhaustive("all message-driven histories up to length %d on a two-port node" % spec["maxlen"])
    elif kind == "node2random":
        from hypothesis import strategies as st
        ctx.for_all(st.lists(st.sampled_from(node2_alphabet()), min_size=1, max_size=12).map(lambda h: dict(k="node2", hist=h)), spec["n"])
    elif kind == "noderandom":
        from hypothesis import strategies as st
        alpha = node_alphabet()
        step = st.one_of(st.sampled_from(alpha), st.sampled_from([["nni", 7], ["nni", 8], ["nni", 1]]))
        strat = st.tuples(st.lists(step, min_size=1, max_size=12), st.booleans()).map(
            lambda t: dict(k="node", hist=t[0] if t[1] else [s for s in t[0] if s[0] != "nni"], learned=t[1]))
        ctx.for_all(strat, spec["n"])


def _fix_renumbers(ops):
    """rewrite a random op list so that every op refers to a current network number and renumbers go to unused numbers"""
    cur = {1: 1, 2: 2}          # logical -> current number
    spare = {1: [7, 1], 2: [8, 2]}
    out = []
    for op in ops:
        op = list(op)
        if op[0] == "renumber":
            logical = 1 if op[1] in (1, 7) else 2
            new = spare[logical][0] if cur[logical] != spare[logical][0] else spare[logical][1]
            out.append(["renumber", cur[logical], new])
            cur[logical] = new
        else:
            logical = op[1]
            op[1] = cur[logical]
            out.append(op)
    return out
