"""C18 -- addresses parse, print, compare and hash coherently in every notation."""
import ipaddress, itertools, struct
from ..runner import Verdict

ID = "C18"
LEVEL = "exploration"
RULE = ("Generated from the meaning outward: (type, network, station octets[, IPv4, prefix, port]) -> every documented spelling "
        "(int, decimal string, net:station, net:*, *, *:*, 0x.., X'..', net:0x.., net:X'..', dotted IPv4 with optional /prefix "
        "and :port, net:ip[:port], (ip,port)/(int,port) tuples, bytes/bytearray, ethernet colon notation, typed constructors, "
        "two-argument Address(net, addr)). Enumerated: all stations 0..255 x networks {0,1,65533,65534} in every 1-octet "
        "notation; boundary+sample IPv4 x all 33 prefix lengths x ports {0,1,47807,47808,47823,47824,65535}; Hypothesis: octet "
        "strings of length 1..7, random IPv4/prefix/port, pools of near-miss meanings; refusals: networks {65535,65536,10^6} "
        "and stations {256,1000,-1} in every notation that can carry them, strings containing characters no notation uses. "
        "Oracle: fields equal the meaning; IP-derived fields equal what the stdlib ipaddress module computes; "
        "Address(str(a)) == a; all spellings of one meaning pairwise ==, equal hash, same dict slot; different meanings != ; "
        "out-of-range and garbage input raises ValueError/TypeError/OSError. Non-trivial: any spelling other than a bare int; "
        "distinct by (spelling, meaning)."
        " Also: octet strings with 0xBA 0xBF..0xD0 at every offset and length (port look-alikes); mask lengths above 32 must be refused."
        " Near-miss spellings (hex-digit neighbours, pairs); any-address and negative-host tuples."
        " The pools repeated with router hints attached (default settings): equal implies equal hash and the same dict slot. One reduced copy of a generated shard runs with the library's debug tracing switched on (label tracing-on).")
ASSUMPTIONS = [
    "route suffixes (@...) and settings.route_aware are outside the statement's list of notations: their meaning is not judged; "
    "addresses carrying a router hint are only held to 'equal implies equal hash' under the default settings",
    "leading-zero dotted octets, ports > 65535 and interface names are outside the domain",
    "for raw 6-octet strings and (ip, port) tuples no mask is denoted, so subnet/host/broadcast are not judged there",
]

_lib = None


def lib():
    global _lib
    if _lib is None:
        from bacpypes import pdu as P
        _lib = P
    return _lib


LS, RS, LB, RB, GB = "ls", "rs", "lb", "rb", "gb"


def build(sp):
    """construct an Address from a JSON spelling (may raise)"""
    P = lib()
    k = sp[0]
    if k == "int":
        return P.Address(sp[1])
    if k == "str":
        return P.Address(sp[1])
    if k == "bytes":
        return P.Address(bytes.fromhex(sp[1]))
    if k == "bytearray":
        return P.Address(bytearray.fromhex(sp[1]))
    if k == "tuple":
        return P.Address((sp[1], sp[2]))
    if k == "two":
        inner = sp[2]
        arg = {"int": lambda: inner[1], "str": lambda: inner[1], "bytes": lambda: bytes.fromhex(inner[1]),
               "bytearray": lambda: bytearray.fromhex(inner[1]), "tuple": lambda: (inner[1], inner[2])}[inner[0]]()
        return P.Address(sp[1], arg)
    if k == "LS":
        return P.LocalStation(sp[1][1] if sp[1][0] == "int" else bytes.fromhex(sp[1][1]) if sp[1][0] == "bytes" else bytearray.fromhex(sp[1][1]))
    if k == "RS":
        return P.RemoteStation(sp[1], sp[2][1] if sp[2][0] == "int" else bytes.fromhex(sp[2][1]) if sp[2][0] == "bytes" else bytearray.fromhex(sp[2][1]))
    if k == "RB":
        return P.RemoteBroadcast(sp[1])
    if k == "LB":
        return P.LocalBroadcast()
    if k == "GB":
        return P.GlobalBroadcast()
    raise ValueError("unknown spelling %r" % (sp,))


def spellings(m):
    """every documented spelling of meaning m = dict(t, net, hex[, ip, prefix, port]) -> list of (spelling, ipform)"""
    t, net = m["t"], m.get("net")
    out = []
    if t == LB:
        return [(["str", "*"], False), (["LB"], False)]
    if t == GB:
        return [(["str", "*:*"], False), (["GB"], False)]
    if t == RB:
        return [(["str", "%d:*" % net], False), (["RB", net], False), (["two", net, ["str", "*"]], False)]
    octs = bytes.fromhex(m["hex"])
    h = octs.hex()
    local = []          # spellings of the station part: (json spelling, string form or None, ipform)
    if len(octs) == 1:
        local.append((["int", octs[0]], "%d" % octs[0], False))
    local.append((["bytes", h], "0x" + h, False))
    local.append((["bytearray", h], "0x" + h.upper(), False))
    local.append((None, "X'%s'" % h, False))
    if len(octs) == 6:
        ip = ".".join("%d" % b for b in octs[:4])
        port = struct.unpack(">H", octs[4:])[0]
        ipint = struct.unpack(">L", octs[:4])[0]
        local.append((["tuple", ip, port], None, False))
        local.append((["tuple", ipint, port], None, False))
        if ipint == 0:
            local.append((["tuple", "", port], None, False))       # the socket convention for 'any address'
            local.append((["tuple", ipint - (1 << 32) if False else 0, port], None, False))
        if ipint >= (1 << 31):
            local.append((["tuple", ipint - (1 << 32), port], None, False))       # a negative host integer, as the BBMD code builds them
        if t == LS:
            local.append((None, ":".join("%02x" % b for b in octs), False))       # ethernet notation, local only
        prefix = m.get("prefix")
        forms = [ip + ":%d" % port]
        if port == 47808:
            forms.append(ip)
        if prefix is not None:
            forms.append(ip + "/%d:%d" % (prefix, port))
            if port == 47808:
                forms.append(ip + "/%d" % prefix)
        for f in forms:
            local.append((None, f, True))
    for js, s, ipf in local:
        if t == LS:
            if js is not None:
                out.append((js, ipf))
                if js[0] in ("int", "bytes", "bytearray"):
                    out.append((["LS", js], ipf))
            if s is not None:
                out.append((["str", s], ipf))
        else:
            if js is not None:
                out.append((["two", net, js], ipf))
                if js[0] in ("int", "bytes", "bytearray"):
                    out.append((["RS", net, js], ipf))
            if s is not None:
                out.append((["str", "%d:%s" % (net, s)], ipf))
                out.append((["two", net, ["str", s]], ipf))
    return out


TYPE_CODE = {LB: 1, LS: 2, RB: 3, RS: 4, GB: 5}


def check_meaning(sp, m, ipform):
    """one spelling must denote exactly m"""
    P = lib()
    tag = sp[0] if sp[0] != "two" else "two-" + sp[2][0]
    try:
        a = build(sp)
    except Exception as err:
        return [("parse:%s:%s:raised:%s" % (m["t"], tag, type(err).__name__), "%r raised %r, expected %r" % (sp, err, m))]
    fails = []
    want_addr = bytes.fromhex(m["hex"]) if m["t"] in (LS, RS) else None
    if a.addrType != TYPE_CODE[m["t"]]:
        fails.append(("parse:%s:%s:type" % (m["t"], tag), "%r -> addrType %r, expected %s" % (sp, a.addrType, m["t"])))
    if a.addrNet != m.get("net"):
        fails.append(("parse:%s:%s:net" % (m["t"], tag), "%r -> addrNet %r, expected %r" % (sp, a.addrNet, m.get("net"))))
    if a.addrAddr != want_addr or (want_addr is not None and (not isinstance(a.addrAddr, bytes) or a.addrLen != len(want_addr))):
        fails.append(("parse:%s:%s:octets" % (m["t"], tag), "%r -> addrAddr %r len %r, expected %r" % (sp, a.addrAddr, a.addrLen, want_addr)))
    if fails:
        return fails
    if ipform:
        ip = ipaddress.IPv4Address(want_addr[:4])
        port = struct.unpack(">H", want_addr[4:])[0]
        prefix = m.get("prefix")
        if prefix is None or "/" not in (sp[1] if sp[0] == "str" else sp[2][1]):
            prefix = 32
        netw = ipaddress.IPv4Network((int(ip) & (0xFFFFFFFF << (32 - prefix)) & 0xFFFFFFFF, prefix))
        exp = dict(addrIP=int(ip), addrMask=int(netw.netmask), addrSubnet=int(netw.network_address),
                   addrHost=int(ip) & int(netw.hostmask), addrPort=port, addrTuple=(str(ip), port),
                   addrBroadcastTuple=(str(netw.broadcast_address), port))
        for k, v in exp.items():
            got = getattr(a, k, "<absent>")
            if got != v:
                fails.append(("parse:%s:ipfield:%s" % (m["t"], k), "%r -> %s=%r, ipaddress says %r" % (sp, k, got, v)))
    # print / parse
    try:
        txt = str(a)
        b = P.Address(txt)
        if not (b == a and a == b) or hash(a) != hash(b):
            fails.append(("print-parse:%s:%s" % (m["t"], "len%d" % len(want_addr) if want_addr else "-"),
                          "%r prints as %r which parses to %r (equal=%r, hash equal=%r)" % (sp, txt, b, b == a, hash(a) == hash(b))))
    except Exception as err:
        fails.append(("print-parse:%s:raised:%s" % (m["t"], type(err).__name__), "%r: str/parse raised %r" % (sp, err)))
    return fails


def check_refuse(sp, what):
    tag = sp[0] if sp[0] != "two" else "two-" + sp[2][0]
    try:
        a = build(sp)
    except (ValueError, TypeError, OSError):
        return []
    except Exception as err:
        return [("refuse:%s:%s:wrong-exception:%s" % (what, tag, type(err).__name__), "%r raised %r" % (sp, err))]
    try:
        shown = repr(a)
    except Exception as err:
        shown = "<an address that cannot even be printed: %r>" % (err,)
    return [("refuse:%s:%s:accepted" % (what, tag.split("-")[0]), "%r accepted as %s (type %r net %r addr %r)" % (sp, shown, a.addrType, a.addrNet, a.addrAddr))]


def check_pool(groups):
    try:
        return _check_pool(groups)
    except TypeError as err:
        # an address that cannot be hashed cannot address a table entry
        return [("pool:hash-raised:TypeError", "hash()/dict use raised %r" % (err,))]


def _check_pool(groups):
    """groups: list of lists of spellings; each inner list spells one meaning; meanings are pairwise different"""
    fails = []
    built = []
    for gi, g in enumerate(groups):
        row = []
        for sp in g:
            try:
                row.append((sp, build(sp)))
            except Exception as err:
                return [("pool:build-raised:%s" % type(err).__name__, "%r raised %r" % (sp, err))]
        built.append(row)
    table = {}
    for gi, row in enumerate(built):
        for sp, a in row:
            # reflexive
            if not (a == a) or (a != a):
                fails.append(("pool:not-reflexive", "%r" % (sp,)))
            try:
                hv = hash(a)
            except Exception as err:
                fails.append(("pool:hash-raised:%s:%s" % (sp[0], type(err).__name__), "%r: hash raised %r" % (sp, err)))
                continue
            for sp2, b in row:
                if not (a == b) or (a != b):
                    fails.append(("pool:equivalent-not-equal", "%r != %r" % (sp, sp2)))
                elif hash(b) != hv:
                    fails.append(("pool:equal-but-hash-differs", "%r vs %r" % (sp, sp2)))
            for gj, row2 in enumerate(built):
                if gj == gi:
                    continue
                for sp2, b in row2:
                    if a == b or not (a != b):
                        fails.append(("pool:different-meanings-equal", "%r == %r" % (sp, sp2)))
            if fails:
                return fails[:4]
            if a in table and table[a] != gi:
                fails.append(("pool:dict-collision", "%r found under meaning %d" % (sp, table[a])))
            elif a not in table:
                if any(x in table for _, x in row if x is not a):
                    fails.append(("pool:dict-miss", "%r not found although an equal address is a key" % (sp,)))
                table[a] = gi
    # every spelling of a group hits the one entry
    for gi, row in enumerate(built):
        for sp, a in row:
            if table.get(a) != gi:
                fails.append(("pool:dict-lookup", "%r looks up %r, expected meaning %d" % (sp, table.get(a), gi)))
    if len(table) != len(groups):
        fails.append(("pool:dict-size", "%d keys for %d meanings" % (len(table), len(groups))))
    return fails[:4]


def build_hinted(sp, route):
    """the spelling with a router hint: route= on the typed constructors, the @ suffix on text"""
    P = lib()
    r = build(route)
    k = sp[0]
    if k == "str":
        return P.Address(sp[1] + "@" + (str(route[1]) if route[0] == "int" else "%s:%d" % (route[1], route[2])))
    if k == "LS":
        return P.LocalStation(build(sp).addrAddr, route=r)
    if k == "RS":
        return P.RemoteStation(sp[1], build(sp).addrAddr, route=r)
    if k == "RB":
        return P.RemoteBroadcast(sp[1], route=r)
    if k == "LB":
        return P.LocalBroadcast(route=r)
    if k == "GB":
        return P.GlobalBroadcast(route=r)
    return None


def check_hinted(groups, routes):
    """default settings (not route aware): whatever equality makes of a router hint, two addresses that compare equal hash equally
    and find one another in a dict.  Only that implication is judged for hinted addresses."""
    import logging
    fails = []
    built = []
    logging.disable(logging.WARNING)       # 'route provided but not route aware' for every text form
    try:
        for g in groups:
            for sp in g:
                built.append((sp, None, build(sp)))
                for r in routes:
                    try:
                        a = build_hinted(sp, r)
                    except Exception as err:
                        if sp[0] == "str":
                            continue        # not every text form takes the suffix
                        return [("hint:build-raised:%s" % type(err).__name__, "%r route %r raised %r" % (sp, r, err))], 0
                    if a is not None:
                        built.append((sp, r, a))
    finally:
        logging.disable(logging.NOTSET)
    neq = 0
    for sp, r, a in built:
        for sp2, r2, b in built:
            if r is None and r2 is None:
                continue
            if a == b:
                neq += 1
                try:
                    same = hash(a) == hash(b)
                except Exception as err:
                    return [("hint:hash-raised:%s" % type(err).__name__, "%r@%r: %r" % (sp, r, err))], neq
                if not same:
                    fails.append(("hint:equal-but-hash-differs", "%r route %r == %r route %r, hashes differ" % (sp, r, sp2, r2)))
                elif {a: 1}.get(b) != 1:
                    fails.append(("hint:dict-miss", "%r route %r not found under the equal key %r route %r" % (sp2, r2, sp, r)))
        if fails:
            break
    return fails[:3], neq


def judge(case):
    k = case["k"]
    if k == "hint":
        fails, neq = check_hinted(case["groups"], case["routes"])
        return Verdict(fails, neq > 0, ("hinted",))
    if k == "mean":
        return Verdict(check_meaning(case["sp"], case["m"], case.get("ip", False)), case["sp"][0] != "int",
                       ("mean:" + case["m"]["t"], "spelling:" + case["sp"][0]))
    if k == "refuse":
        return Verdict(check_refuse(case["sp"], case["what"]), True, ("refuse:" + case["what"],))
    if k == "pool":
        return Verdict(check_pool(case["groups"]), True, ("pool",))
    raise ValueError(k)


# ---- generation --------------------------------------------------------------------

NETS = (0, 1, 65533, 65534)
PORTS = (0, 1, 47807, 47808, 47823, 47824, 65535)
IPS = ("0.0.0.0", "255.255.255.255", "10.0.0.1", "192.168.0.255", "127.0.0.1", "1.2.3.4", "172.16.255.254", "128.0.0.0", "9.255.0.128")


def all_cases_for(m):
    return [dict(k="mean", sp=sp, m=m, ip=ipf) for sp, ipf in spellings(m)]


def ip_meaning(t, net, ip, prefix, port):
    octs = ipaddress.IPv4Address(ip).packed + struct.pack(">H", port)
    m = dict(t=t, hex=octs.hex(), prefix=prefix)
    if t == RS:
        m["net"] = net
    return m


def refusal_cases():
    out = []
    for net in (65535, 65536, 10 ** 6):
        for s in ("%d:5", "%d:*", "%d:0x01", "%d:X'0102'", "%d:1.2.3.4", "%d:1.2.3.4:47809", "%d:0"):
            out.append(dict(k="refuse", what="network", sp=["str", s % net]))
        out.append(dict(k="refuse", what="network", sp=["RS", net, ["int", 1]]))
        out.append(dict(k="refuse", what="network", sp=["RS", net, ["bytes", "0102"]]))
        out.append(dict(k="refuse", what="network", sp=["RB", net]))
        for inner in (["int", 1], ["bytes", "0a0b"], ["str", "*"], ["str", "7"], ["str", "0x0102"], ["str", "1.2.3.4"], ["tuple", "1.2.3.4", 47808]):
            out.append(dict(k="refuse", what="network", sp=["two", net, inner]))
    for st_ in (256, 257, 1000, 65536):
        out.append(dict(k="refuse", what="station", sp=["int", st_]))
        out.append(dict(k="refuse", what="station", sp=["str", "%d" % st_]))
        out.append(dict(k="refuse", what="station", sp=["str", "1:%d" % st_]))
        out.append(dict(k="refuse", what="station", sp=["str", "65534:%d" % st_]))
        out.append(dict(k="refuse", what="station", sp=["LS", ["int", st_]]))
        out.append(dict(k="refuse", what="station", sp=["RS", 1, ["int", st_]]))
        out.append(dict(k="refuse", what="station", sp=["two", 1, ["int", st_]]))
        out.append(dict(k="refuse", what="station", sp=["two", 1, ["str", "%d" % st_]]))
    # a mask length above 32 denotes nothing
    for bad in (33, 34, 64, 255, 256):
        for s_ in ("10.1.2.3/%d", "10.1.2.3/%d:47808", "5:10.1.2.3/%d", "0.0.0.0/%d", "255.255.255.255/%d:47809"):
            out.append(dict(k="refuse", what="mask", sp=["str", s_ % bad]))
    for neg in (-1, -256):
        out.append(dict(k="refuse", what="station", sp=["int", neg]))
        out.append(dict(k="refuse", what="station", sp=["LS", ["int", neg]]))
        out.append(dict(k="refuse", what="station", sp=["RS", 1, ["int", neg]]))
        out.append(dict(k="refuse", what="network", sp=["RS", neg, ["int", 1]]))
        out.append(dict(k="refuse", what="network", sp=["RB", neg]))
    return out


def plan(tier, seed):
    specs = [dict(name="stations", kind="stations"), dict(name="ip-grid", kind="ipgrid"), dict(name="lookalikes", kind="lookalikes"),
             dict(name="refusals", kind="refusals"), dict(name="broadcasts", kind="broadcasts")]
    n = 2500 if tier == "quick" else 100000
    for i in range(3):
        specs.append(dict(name="octets-%d" % i, kind="octets", n=n))
    for i in range(3):
        specs.append(dict(name="ip-random-%d" % i, kind="iprandom", n=n))
    for i in range(3):
        specs.append(dict(name="pools-%d" % i, kind="pools", n=max(300, n // 5)))
    specs.append(dict(name="garbage", kind="garbage", n=n * 2))
    # once more with the library's debug tracing switched on
    specs.append(dict(name="tracing-octets", kind="octets", n=n // 4, tracing=True))
    specs.append(dict(name="tracing-ip-random", kind="iprandom", n=n // 4, tracing=True))
    return specs


def run(spec, ctx):
    kind = spec["kind"]
    if kind == "stations":
        for st_ in range(256):
            ctx.check(dict(k="mean", sp=["int", st_], m=dict(t=LS, hex="%02x" % st_)))
            for c in all_cases_for(dict(t=LS, hex="%02x" % st_)):
                ctx.check(c)
            for net in NETS:
                for c in all_cases_for(dict(t=RS, net=net, hex="%02x" % st_)):
                    ctx.check(c)
        ctx.mark_exhaustive("all stations 0..255 x networks {0,1,65533,65534} in every 1-octet notation")
    elif kind == "broadcasts":
        for c in all_cases_for(dict(t=LB)) + all_cases_for(dict(t=GB)):
            ctx.check(c)
        for net in list(NETS) + [2, 255, 256, 4095, 32768]:
            for c in all_cases_for(dict(t=RB, net=net)):
                ctx.check(c)
        ctx.mark_exhaustive("broadcast notations at the network range edges")
    elif kind == "ipgrid":
        for ip in IPS:
            for prefix in range(33):
                for port in PORTS:
                    for c in all_cases_for(ip_meaning(LS, None, ip, prefix, port)):
                        ctx.check(c)
                    if prefix % 8 == 0 or prefix in (1, 31, 25):
                        for c in all_cases_for(ip_meaning(RS, NETS[(prefix + port) % 4], ip, prefix, port)):
                            ctx.check(c)
        ctx.mark_exhaustive("boundary IPv4 addresses x all 33 prefix lengths x port boundaries")
    elif kind == "lookalikes":
        # octet strings of every length 1..7 that carry something looking like a BACnet/IP port (0xBAC0..0xBACF) at every offset,
        # and six-octet strings with ports around that window: the printer chooses a notation by looking at exactly these
        seen = set()
        for n in range(1, 8):
            for off in range(0, n - 1):
                for lo in list(range(0xBF, 0xD1)):
                    for fill in (0x00, 0x01, 0x7F, 0xC0, 0xFF):
                        o = bytearray([fill] * n)
                        for i in range(n):
                            o[i] = (fill + i) & 0xFF if fill in (0x01, 0x7F) else fill
                        o[off] = 0xBA
                        o[off + 1] = lo
                        seen.add(bytes(o))
        for o in sorted(seen):
            for m in (dict(t=LS, hex=o.hex()), dict(t=RS, net=NETS[len(o) % 4], hex=o.hex())):
                for c in all_cases_for(m):
                    ctx.check(c)
        ctx.mark_exhaustive("octet strings of length 2..7 with 0xBA 0xBF..0xD0 at every offset x 5 fillers, local and remote, in every notation")
    elif kind == "refusals":
        for c in refusal_cases():
            ctx.check(c)
        ctx.mark_exhaustive("out-of-range networks and stations in every notation that can carry them")
    elif kind == "octets":
        from hypothesis import strategies as st
        octs = st.integers(1, 7).flatmap(lambda n: st.binary(min_size=n, max_size=n))
        net = st.one_of(st.sampled_from(NETS), st.integers(0, 65534))
        meaning = st.one_of(octs.map(lambda o: dict(t=LS, hex=o.hex())),
                            st.tuples(net, octs).map(lambda t: dict(t=RS, net=t[0], hex=t[1].hex())))
        strat = meaning.flatmap(lambda m: st.sampled_from(all_cases_for(m)))
        ctx.for_all(strat, spec["n"])
    elif kind == "iprandom":
        from hypothesis import strategies as st
        ip = st.one_of(st.sampled_from(IPS), st.integers(0, 0xFFFFFFFF).map(lambda v: str(ipaddress.IPv4Address(v))))
        port = st.one_of(st.sampled_from(PORTS), st.integers(0, 65535), st.integers(47808, 47823))
        net = st.one_of(st.sampled_from(NETS), st.integers(0, 65534))
        meaning = st.tuples(st.sampled_from([LS, RS]), net, ip, st.integers(0, 32), port).map(lambda t: ip_meaning(*t))
        strat = meaning.flatmap(lambda m: st.sampled_from(all_cases_for(m)))
        ctx.for_all(strat, spec["n"])
    elif kind == "pools":
        from hypothesis import strategies as st
        octs = st.integers(1, 7).flatmap(lambda n: st.binary(min_size=n, max_size=n))
        net = st.one_of(st.sampled_from(NETS), st.integers(0, 65534))

        def near(base):
            """meanings close to one another: same octets/other net, same net/other octets, local vs remote, broadcasts"""
            o, n1, n2 = base
            o2 = bytes([o[0] ^ 1]) + o[1:]
            o3 = o + b"\x00" if len(o) < 7 else o[:-1]
            ms = [dict(t=LS, hex=o.hex()), dict(t=RS, net=n1, hex=o.hex()), dict(t=LS, hex=o2.hex()),
                  dict(t=RS, net=n1, hex=o2.hex()), dict(t=LS, hex=o3.hex()), dict(t=RB, net=n1), dict(t=LB), dict(t=GB)]
            if n2 != n1:
                ms += [dict(t=RS, net=n2, hex=o.hex()), dict(t=RB, net=n2)]
            return dict(k="pool", groups=[[sp for sp, _ in spellings(m)] for m in ms])
        strat = st.tuples(octs, net, net).map(near)
        ctx.for_all(strat, spec["n"])
        # the same pools with router hints attached (default settings): equal implies equal hash
        rt = st.one_of(st.integers(0, 255).map(lambda i: ["int", i]),
                       st.tuples(st.sampled_from(IPS[2:]), st.sampled_from(PORTS[1:])).map(lambda t: ["tuple", t[0], t[1]]))
        hinted = st.tuples(strat, st.lists(rt, min_size=1, max_size=2, unique_by=repr)).map(lambda t: dict(k="hint", groups=t[0]["groups"], routes=t[1]))
        ctx.for_all(hinted, max(100, spec["n"] // 4), salt=7)
    elif kind == "garbage":
        from hypothesis import strategies as st
        bad = "!#$%&()+,;<=>?[]^`{|}~ \t"
        good = "0123456789abcdefxX:.*/'"
        strat = st.tuples(st.text(alphabet=good, max_size=8), st.sampled_from(bad), st.text(alphabet=good + bad, max_size=8)) \
            .map(lambda t: dict(k="refuse", what="garbage", sp=["str", t[0] + t[1] + t[2]]))
        ctx.for_all(strat, spec["n"])
        # near misses: a valid hex / X'' / dotted spelling with one character replaced by a neighbour of the hex digits or a separator look-alike
        confus = "GgHhZz[\\]^_`;,+ lOoIi"
        base = ["0x0102", "7:0x0102", "0x01", "65534:0xff", "X'0102'", "7:X'01'", "0x010203040506", "1.2.3.4", "1.2.3.4:47809", "7:1.2.3.4", "1.2.3.4/24", "01:02:03:04:05:06"]
        n_ = 0
        for b_ in base:
            for pos in range(len(b_)):
                for ch in confus:
                    if b_[pos] == ch:
                        continue
                    cand = b_[:pos] + ch + b_[pos + 1:]
                    if any(c_ in "GgHhZz[\\]^_`;,+ lOoIi" for c_ in cand):
                        ctx.check(dict(k="refuse", what="near-miss", sp=["str", cand]))
                        n_ += 1
            for pos in range(len(b_) + 1):
                for ch in ("G", "g", "_", "`", "[", " ", "GG", "Gh", "__", "ZZ", "^_", "1G", "G1", "g0"):
                    ctx.check(dict(k="refuse", what="near-miss", sp=["str", b_[:pos] + ch + b_[pos:]]))
            # two substitutions (a whole pair of hex digits, or one digit in each of two pairs)
            for pos in range(len(b_) - 1):
                for pair in ("GG", "G_", "Zz", "[]", "1G", "G1"):
                    ctx.check(dict(k="refuse", what="near-miss", sp=["str", b_[:pos] + pair + b_[pos + 2:]]))
                for pos2 in range(pos + 2, min(len(b_), pos + 4)):
                    cand = b_[:pos] + "G" + b_[pos + 1:pos2] + "H" + b_[pos2 + 1:]
                    ctx.check(dict(k="refuse", what="near-miss", sp=["str", cand]))
        ctx.mark_exhaustive("single-character substitutions / insertions of hex-digit neighbours in 12 valid spellings")
