"""C05 -- segmented transfers deliver the exact payload and survive any single fault."""
from ..runner import Verdict, watchdog, Stall
from .. import txn
from ..lab_stack import pattern

ID = "C05"
LEVEL = "fault_enumeration"
RULE = ("Real client and server application stacks on a fault-injecting virtual LAN under virtual time; the request is a "
        "ConfirmedPrivateTransfer whose parameter / result block is a position-dependent octet pattern. Enumerated: payload "
        "lengths around every multiple of the segment size (EVERY length 0..4*S+2 in thorough) for each max-APDU size "
        "{50,128,206,480,1024,1476} in each direction; all 64 window pairs 1..8 x 1..8 at three sizes; long transfers of "
        "255/256/257/300/520 segments; EVERY single fault (drop, duplicate, late arrival by 0.1 s and by half a segment "
        "timeout) at EVERY frame index of the boundary configurations; Hypothesis random multi-fault streams. Oracle: "
        "(delivery) whatever reaches the serving application / the requester as an ack is octet-for-octet what was submitted, "
        "otherwise the outcome is an abort/error, never another payload; (wire) every LAN frame is decoded by an independent "
        "APCI codec: new segments carry consecutive sequence numbers mod 256, retransmissions repeat earlier segments "
        "unchanged, more-follows is false on exactly the last segment, segment 0 carries the proposed window, no segment lies "
        "beyond last-acknowledged + window of the most recent segment-ack; (repair) with exactly one fault the transaction "
        "still ends in the ack with the exact payload. Non-trivial: >= 2 segments in at least one direction. Distinct by "
        "(configuration, fault plan)."
        " Also: single faults around the sequence-number wrap of a 263-segment transfer (windows 1/2/4, both directions); single faults with one configured retry."
        " Other timer proportions (APDU timeout 10 s / 6 s with segment timeout 2 s / 1 s)."
        " One reduced copy of a generated shard runs with the library's debug tracing switched on (label tracing-on)."
        " Single faults also against a serving application that answers after 1.5 segment timeouts (timer proportions 10 s / 2 s and 6 s / 1 s).")
ASSUMPTIONS = [
    "the serving application's thinking time plus one segment timeout stays below the APDU timeout (otherwise the requester repeats its request while a lost "
    "first answer segment is still being repaired, and the standard's serving state machine aborts on a request it does not expect)",
    "the APDU timeout is not shorter than the segment timeout (with the reverse, the requester restarts a segmented request while the answer is still being repaired, and the standard's own state machine aborts)",
    "segment boundaries follow the library's slicing rule (payload / max-APDU); whether the resulting frames respect the peer's limits is C12",
    "the window rule counts every segment-ack offered to the LAN, even one the fault plan then drops (lenient towards the sender)",
    "late arrival = delay shorter than the segment timeout; longer delays are multi-fault territory (the retransmission also arrives) and only the payload/wire clauses are judged there",
]


def expected_total(n):
    return txn.service_data_len(n)


def wire_check(obs):
    """segmentation discipline on the wire, per direction"""
    c = obs["cfg"]
    fails = []
    segs = txn.segments_on_wire(obs["frames"])
    for direction, ptype, sender, receiver, total, win_cfg in (
            ("request", 0, 1, 2, expected_total(c["req_len"]), c["c_win"]),
            ("response", 3, 2, 1, expected_total(c["rsp_len"]), c["s_win"])):
        sent = {}                 # abs index -> (data, mor)
        sent_upto = 0             # number of distinct segments sent so far (abs index of the next new one)
        acked = None              # abs index acknowledged (max), None before the first ack
        win = None
        cum = 0
        for s in segs:
            a = s["a"]
            if a["type"] == 4 and s["src"] == receiver and bool(a["srv"]) == (receiver == 2):
                # segment-ack from the receiver of this direction
                if not (1 <= a["win"] <= 127):
                    fails.append(("wire:%s:ack-window-range" % direction, "segment-ack with window %d at frame %d" % (a["win"], s["i"])))
                win = a["win"]
                # absolute index of the acked sequence number
                cand = [x for x in range(max(0, sent_upto - 256), max(sent_upto, 1)) if x % 256 == a["seq"]]
                if cand:
                    acked = max(acked if acked is not None else -1, cand[-1])
                continue
            if a["type"] != ptype or s["src"] != sender or not a.get("seg"):
                if a["type"] == ptype and s["src"] == sender and not a.get("seg"):
                    # unsegmented message: restarts the bookkeeping (APDU-level retry of a short message)
                    pass
                continue
            seq = a["seq"]
            data = a["data"]
            olds = [x for x in range(max(0, sent_upto - 256), sent_upto) if x % 256 == seq]
            same = [x for x in olds if sent[x] == (data, bool(a["mor"]))]
            if same:
                idx = same[-1]               # an earlier segment repeated unchanged
                new = False
            elif seq == sent_upto % 256:
                idx = sent_upto              # a new segment
                new = True
            elif olds:
                idx = olds[-1]
                new = False
            else:
                fails.append(("wire:%s:sequence-gap" % direction, "frame %d carries sequence number %d but only %d segments were sent so far" % (s["i"], seq, sent_upto)))
                break
            if new:
                cum += len(data)
                want_mor = cum < total
                if bool(a["mor"]) != want_mor:
                    fails.append(("wire:%s:more-follows" % direction, "segment %d (frame %d): more-follows=%r after %d of %d octets" % (idx, s["i"], a["mor"], cum, total)))
                sent[idx] = (data, bool(a["mor"]))
                sent_upto += 1
            else:
                if sent[idx] != (data, bool(a["mor"])):
                    fails.append(("wire:%s:retransmission-differs" % direction, "segment %d re-sent at frame %d with different content or flags" % (idx, s["i"])))
            if idx == 0:
                if a["win"] != win_cfg:
                    fails.append(("wire:%s:proposed-window" % direction, "segment 0 proposes window %r, configured %r" % (a["win"], win_cfg)))
            # window discipline
            if idx > 0:
                if acked is None:
                    fails.append(("wire:%s:window-overrun" % direction, "segment %d (frame %d) sent before any segment-ack" % (idx, s["i"])))
                elif idx > acked + win:
                    fails.append(("wire:%s:window-overrun" % direction, "segment %d (frame %d) sent while only %d is acknowledged and the window is %d" % (idx, s["i"], acked, win)))
            if fails:
                break
    return fails


def delivery_check(obs):
    c = obs["cfg"]
    fails = []
    want_req = pattern(c["req_len"], 0xA5)
    want_rsp = pattern(c["rsp_len"], 0x5A)
    for t, payload, inv in obs["served"]:
        if payload != want_req:
            fails.append(("delivery:request-payload", "the serving application received %s, submitted %d octets (%s)"
                          % (_diff(payload, want_req), len(want_req), _plan(obs))))
    for o in obs["outcomes"]:
        if o[1] == "ack" and o[3] != want_rsp:
            fails.append(("delivery:response-payload", "the requester received %s, the server sent %d octets (%s)"
                          % (_diff(o[3], want_rsp), len(want_rsp), _plan(obs))))
    return fails


def _diff(got, want):
    if not isinstance(got, bytes):
        return repr(got)
    if len(got) != len(want):
        return "%d octets" % len(got)
    pos = next(i for i in range(len(got)) if got[i] != want[i]) if got != want else -1
    return "%d octets differing from octet %d" % (len(got), pos)


def _plan(obs):
    return "plan %r" % (obs.get("plan"),)


def role_of(frame_apci, c):
    a = frame_apci
    if a is None:
        return "other"
    t = a["type"]
    name = {0: "req", 3: "ack", 4: "segack", 5: "error", 6: "reject", 7: "abort", 2: "simpleack"}.get(t, "t%d" % t)
    if t in (0, 3) and a.get("seg"):
        pos = "first" if a["seq"] == 0 else ("last" if not a["mor"] else "mid")
        return "%s-seg-%s" % (name, pos)
    if t == 4:
        return "segack-%s%s" % ("srv" if a["srv"] else "cli", "-nak" if a["nak"] else "")
    return name


def repair_check(obs, baseline):
    """exactly one fault, fault-free run acks: the transaction must still succeed"""
    c = obs["cfg"]
    plan = obs.get("plan") or {}
    if len(plan) != 1 or obs.get("silence"):
        return []
    (idx, act), = plan.items()
    if act[0] == "delay" and float(act[1]) >= c["seg_timeout"] / 1000.0:
        return []
    if not baseline or baseline[0][1] != "ack":
        return []
    outs = obs["outcomes"]
    ok = len(outs) == 1 and outs[0][1] == "ack" and outs[0][3] == pattern(c["rsp_len"], 0x5A) and \
        len(obs["served"]) >= 1 and all(s[1] == pattern(c["req_len"], 0xA5) for s in obs["served"])
    if ok:
        return []
    fr = [f for f in obs["frames"] if f["i"] == int(idx)]
    role = role_of(fr[0].get("apci"), c) if fr else "beyond-the-run"
    if not fr:
        return []
    what = "%s" % (outs[0][1:3] + ((outs[0][3],) if outs[0][1] != "ack" else ()),) if outs else "no outcome"
    exc = ""
    if obs["swallowed"]:
        exc = ":%s@%s" % (obs["swallowed"][0][0], obs["swallowed"][0][1])
    return [("repair:%s:%s%s" % (act[0], role, exc), "single fault %s at frame %s (%s) is not repaired: outcome %s; swallowed %r (cfg %r)"
             % (act, idx, role, what, obs["swallowed"][:2], _short_cfg(c)))]


def _short_cfg(c):
    return dict((k, v) for k, v in c.items() if txn.DEFAULT.get(k) != v)


_baselines = {}


def baseline_for(cfg):
    key = tuple(sorted(cfg.items()))
    if key not in _baselines:
        if len(_baselines) > 2000:
            _baselines.clear()
        o = txn.run_txn(cfg)
        _baselines[key] = (o["outcomes"], len(o["frames"]))
    return _baselines[key]


def judge(case):
    try:
        with watchdog(60):
            return _judge(case)
    except Stall:
        return Verdict([("txn:stall", "the lab did not come back within 60 s of real time: %r" % (case,))], True, ("stall",))


def _judge(case):
    cfg = dict(case["cfg"])
    plan = dict((int(k), tuple(v)) for k, v in (case.get("plan") or {}).items())
    obs = txn.run_txn(cfg, plan, case.get("silence"))
    obs["plan"] = plan
    obs["silence"] = case.get("silence")
    if obs["runaway"]:
        rs, ps = txn.seg_counts(obs["cfg"])
        return Verdict([("txn:runaway-traffic:%s" % ("gt256" if max(rs, ps) > 256 else "le256"),
                         "more than 20000 frames without time advancing past %r s: the transfer never ends (%d/%d segments, cfg %r, plan %r)"
                         % (obs["t_end"], rs, ps, _short_cfg(obs["cfg"]), plan))], True, ("runaway",))
    fails = delivery_check(obs) + wire_check(obs)
    if len(plan) == 1 and not case.get("silence"):
        base, nframes = baseline_for(cfg)
        fails += repair_check(obs, base)
    rs, ps = txn.seg_counts(obs["cfg"])
    labels = ["segments:%s/%s" % ("1" if rs == 1 else "n", "1" if ps == 1 else "n")]
    if plan:
        labels.append("faults:%d" % len(plan))
    if obs["outcomes"]:
        labels.append("outcome:" + obs["outcomes"][0][1])
    else:
        labels.append("outcome:none")
    return Verdict(fails, rs >= 2 or ps >= 2, labels)


# ---- generation ------------------------------------------------------------------------------------------------

SIZES = (50, 128, 206, 480, 1024, 1476)


def boundary_lengths(S, tier):
    """octet-string lengths whose encoded service data lies around multiples of the segment size S"""
    totals = set([9, 10])
    # a segment carries the max-APDU minus its fixed header (3..6 octets, by PDU type and segmentation): multiples of every candidate size
    for hdr in (0, 3, 4, 5, 6):
        for k in (1, 2, 3, 4):
            for d in (-1, 0, 1, 2):
                totals.add(k * (S - hdr) + d)
    totals.add(4 * S + 2)
    ns = set()
    for t in totals:
        n = txn.payload_for_total(t)
        if n is not None:
            ns.add(n)
    return sorted(ns)


def base_cfg(S, **kw):
    c = dict(c_apdu=S, s_apdu=S, c_segs=100, s_segs=100)
    c.update(kw)
    return c


def fault_actions(c):
    tseg = c.get("seg_timeout", 1500) / 1000.0
    return [("drop",), ("dup",), ("delay", 0.1), ("delay", tseg / 2.0)]


def plan(tier, seed):
    specs = []
    for S in SIZES:
        specs.append(dict(name="sizes-%d" % S, kind="sizes", S=S, tier=tier))
    specs.append(dict(name="windows", kind="windows", tier=tier))
    specs.append(dict(name="long", kind="long", tier=tier))
    for which in ("req", "rsp"):
        for win in (1, 2, 4):
            specs.append(dict(name="long-faults-%s-%d" % (which, win), kind="long-faults", which=which, win=win, tier=tier))
    for S in (50, 206) if tier == "quick" else (50, 128, 206, 1476):
        for which in ("req", "rsp", "both"):
            for nseg in (2, 3, 5):
                specs.append(dict(name="faults-%d-%s-%d" % (S, which, nseg), kind="faults", S=S, which=which, nseg=nseg, tier=tier))
    specs.append(dict(name="fault-pairs", kind="pairs", tier=tier))
    for i in range(4):
        specs.append(dict(name="streams-%d" % i, kind="streams", n=1500 if tier == "quick" else 40000))
    # once more with the library's debug tracing switched on
    specs.append(dict(name="tracing-streams", kind="streams", n=200 if tier == "quick" else 4000, tracing=True))
    return specs


def run(spec, ctx):
    kind = spec["kind"]
    if kind == "sizes":
        S = spec["S"]
        if spec["tier"] == "thorough":
            lens = list(range(0, txn.payload_for_total(4 * S + 2) + 1))
        else:
            lens = boundary_lengths(S, "quick")
        for n in lens:
            ctx.check(dict(k="txn", cfg=base_cfg(S, req_len=n, rsp_len=5)))
            ctx.check(dict(k="txn", cfg=base_cfg(S, req_len=5, rsp_len=n)))
        for n in lens[::3] if spec["tier"] == "quick" else lens[::7]:
            ctx.check(dict(k="txn", cfg=base_cfg(S, req_len=n, rsp_len=n)))
        if spec["tier"] == "thorough":
            ctx.mark_exhaustive("every payload length 0..4*S+2 at max-APDU %d, each direction" % S)
    elif kind == "windows":
        for S in (50, 206, 1024):
            n = txn.payload_for_total(9 * S + 3)
            for cw in range(1, 9):
                for sw in range(1, 9):
                    ctx.check(dict(k="txn", cfg=base_cfg(S, req_len=n, rsp_len=n, c_win=cw, s_win=sw)))
        ctx.mark_exhaustive("all 64 window pairs at three max-APDU sizes")
    elif kind == "long":
        for nseg in (255, 256, 257, 300) + ((520,) if spec["tier"] == "thorough" else ()):
            n = txn.payload_for_total(nseg * 50 - 7)
            for win in (1, 4):
                ctx.check(dict(k="txn", cfg=base_cfg(50, req_len=n, rsp_len=5, c_win=win, s_win=win)))
                ctx.check(dict(k="txn", cfg=base_cfg(50, req_len=5, rsp_len=n, c_win=win, s_win=win)))
    elif kind == "long-faults":
        # a transfer that wraps the 8-bit sequence number: single faults on the frames before, at and after the wrap and at the very end
        n = txn.payload_for_total(263 * 50 - 7)
        cfg = base_cfg(50, req_len=n if spec["which"] == "req" else 5, rsp_len=n if spec["which"] == "rsp" else 5, c_win=spec["win"], s_win=spec["win"])
        frames0 = txn.run_txn(cfg)["frames"]
        segs = [f["i"] for f in frames0 if f.get("apci") and f["apci"].get("seg")]
        acks = [f["i"] for f in frames0 if f.get("apci") and f["apci"]["type"] == 4]
        if len(segs) >= 263:
            pick = set(segs[250:] + segs[:3])
            lo = segs[250]
            pick |= set(i for i in acks if i >= lo) | set(acks[:2])
            step = 1 if spec["tier"] == "thorough" else (1 if spec["win"] > 1 else 2)
            for i in sorted(pick)[::step]:
                for act in (("drop",), ("dup",)) if spec["tier"] == "quick" else (("drop",), ("dup",), ("delay", 0.1), ("delay", 0.75)):
                    ctx.check(dict(k="txn", cfg=cfg, plan={str(i): list(act)}))
    elif kind == "faults":
        S = spec["S"]
        n = txn.payload_for_total(spec["nseg"] * S - 5)
        combos = {"req": [(n, 5)], "rsp": [(5, n)], "both": [(n, n)]}[spec["which"]]
        wins = [(2, 2), (1, 1), (4, 3), (1, 3), (3, 1), (8, 8)] if spec["tier"] == "quick" else [(a, b) for a in (1, 2, 3, 4, 8) for b in (1, 2, 3, 4, 8)]
        for (rq, rp) in combos:
            for (cw, sw, retries) in [w + (3,) for w in wins] + [w + (1,) for w in wins[:3]] + ([w + (2,) for w in wins[:2]] if spec["tier"] == "thorough" else []):
                # (one retry is enough to repair one lost frame)
                cfg = base_cfg(S, req_len=rq, rsp_len=rp, c_win=cw, s_win=sw, retries=retries)
                base, nframes = baseline_for(cfg)
                for i in range(nframes):
                    for act in fault_actions(cfg) + [("delay", 1.5), ("delay", 3.5)]:
                        ctx.check(dict(k="txn", cfg=cfg, plan={str(i): list(act)}))
            # other timer proportions: an APDU timeout well above four segment timeouts (10 s / 2 s, 6 s / 1 s)
            # ... and a serving application that takes longer than a segment timeout (but far less than the APDU timeout) to answer
            for (cw, sw) in wins[:2]:
                for (ta, ts) in ((10000, 2000), (6000, 1000)):
                    for think in (0.0, 1.5 * ts / 1000.0):
                        cfg = base_cfg(S, req_len=rq, rsp_len=rp, c_win=cw, s_win=sw, apdu_timeout=ta, seg_timeout=ts, think=think)
                        base, nframes = baseline_for(cfg)
                        for i in range(nframes):
                            for act in (("drop",), ("dup",)):
                                ctx.check(dict(k="txn", cfg=cfg, plan={str(i): list(act)}))
        ctx.mark_exhaustive("every single fault at every frame index (max-APDU %d, %s, %d segments)" % (S, spec["which"], spec["nseg"]))
    elif kind == "pairs":
        # every pair of faults on a small segmented exchange (payload / wire clauses; repair is only promised for single faults)
        for (rq, rp, cw, sw) in ((txn.payload_for_total(140), txn.payload_for_total(140), 2, 2), (5, txn.payload_for_total(190), 1, 3)):
            cfg = base_cfg(50, req_len=rq, rsp_len=rp, c_win=cw, s_win=sw)
            base, nframes = baseline_for(cfg)
            acts = [("drop",), ("dup",), ("delay", 0.75)] if spec["tier"] == "quick" else [("drop",), ("dup",), ("delay", 0.1), ("delay", 0.75), ("delay", 3.5)]
            for i in range(nframes + 2):
                for j in range(i + 1, nframes + 6):
                    for a1 in acts:
                        for a2 in acts:
                            ctx.check(dict(k="txn", cfg=cfg, plan={str(i): list(a1), str(j): list(a2)}))
        ctx.mark_exhaustive("every pair of faults on two small segmented exchanges")
    elif kind == "streams":
        from hypothesis import strategies as st
        act = st.one_of(st.just(["drop"]), st.just(["dup"]), st.tuples(st.just("delay"), st.sampled_from([0.1, 0.75, 1.5, 3.0, 6.0])).map(list))
        plan_s = st.dictionaries(st.integers(0, 40).map(str), act, max_size=6)
        S = st.sampled_from([50, 128, 206])
        cfg = st.tuples(S, st.integers(0, 4), st.integers(0, 4), st.integers(1, 8), st.integers(1, 8), st.integers(-3, 3), st.integers(-3, 3),
                        st.sampled_from([0.0, 0.0, 0.0, 0.4, 0.7])).map(
            lambda t: base_cfg(t[0], req_len=max(0, (txn.payload_for_total(t[1] * t[0]) or 0) + t[5]), rsp_len=max(0, (txn.payload_for_total(t[2] * t[0]) or 0) + t[6]),
                               c_win=t[3], s_win=t[4], **(dict(think=t[7]) if t[7] else {})))
        strat = st.tuples(cfg, plan_s).map(lambda t: dict(k="txn", cfg=t[0], plan=t[1]))
        ctx.for_all(strat, spec["n"])
