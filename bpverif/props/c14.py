"""C14 -- scheduled work runs once, in order, never early; failures stay isolated."""
import sys, itertools
from fractions import Fraction
from ..runner import Verdict, watchdog, Stall
from .. import clock as VC

ID = "C14"
LEVEL = "exploration"
RULE = ("The real TaskManager (only bacpypes.task._time rebound to a virtual clock) driven through core.run_once() and through "
        "the real core.run() (idle-jumping clock). (1) Operation sequences over {install at t (colliding 3-value grid), install "
        "after delta, suspend, resume, re-install, advance time} on up to 4 one-shot tasks: ALL sequences up to a bound "
        "(quick: length <= 3 full alphabet + length 4 reduced; thorough: up to length 5 / 6 / 7 on shrinking alphabets) and "
        "Hypothesis sequences of length <= 200; oracle = reference scheduler (list ordered by (time, install order), "
        "move-on-reinstall, remove-on-suspend): the firing log (task, clock time) must equal the model's, fire time >= due time. "
        "(2) Recurring tasks over an interval x offset grid incl. 100, 250, 300, 1000/3, 700.7 ms, offsets 0, 1, 33.3, interval-1 ms, "
        "installed at arbitrary millisecond instants incl. exactly on a slot: exactly one firing per slot k*interval+offset "
        "strictly after installation, each within 1e-4 s of the exact rational slot. (3) Deferred batches of up to 6 functions: "
        "EVERY subset raising x EVERY subset deferring one more function (4096 shapes) under both loops: each function and each "
        "child called exactly once in submission order. (4) Tasks raising among tasks due at the same instant: all others still "
        "fire once. Non-trivial: history with a time collision, a suspend/re-install of a pending task, or a raising member. "
        "Distinct by the operation sequence."
        " Also: histories over 6..16 tasks with the heap filled first; tasks that re-install themselves from inside their firing and are suspended / moved / resumed from outside; one recurring task installed three times over an interval x offset grid (None = keep, 0 = zero)."
        " Deferred callables of every kind (partial, callable object, bound method, lambda)."
        " One reduced copy of a generated shard runs with the library's debug tracing switched on (label tracing-on).")
ASSUMPTIONS = [
    "bacpypes.task._time is the only wall-clock read on this path (rebinding it is a harness monkeypatch, not a source hook)",
    "recurring-slot alignment is judged with a 1e-4 s tolerance (the library adds 1 us jitter by design); install instants are "
    "millisecond-aligned so that no slot lies within the jitter after an installation instant",
    "a recurring task whose own process_task raises is not required to recur (the statement protects the *other* tasks)",
]

_lib = None


class _L(object):
    pass


def lib():
    global _lib
    if _lib is None:
        L = _L()
        VC.install(0.0)
        import bacpypes.task as task
        import bacpypes.core as core
        L.task, L.core = task, core
        L.log = []

        class T(task.OneShotTask):
            def __init__(self, ident, boom=False):
                task.OneShotTask.__init__(self)
                self.ident = ident
                self.boom = boom

            def process_task(self):
                L.log.append((self.ident, VC.clk.now))
                if getattr(self, "rearm", None):
                    # a task that puts itself back on the schedule from inside its own firing
                    self.install_task(delta=self.rearm.pop(0))
                if self.boom:
                    raise RuntimeError("task %s raises" % self.ident)

        class Rec(task.RecurringTask):
            def __init__(self, interval, offset):
                task.RecurringTask.__init__(self, interval, offset)

            def process_task(self):
                L.log.append(("r", VC.clk.now))
        L.T, L.Rec = T, Rec

        # idle-jumping clock for the real core.run()
        class JumpClock(object):
            def __init__(self):
                self.now = 0.0
                self.horizon = None          # active only inside run_until()

            def __call__(self):
                if self.horizon is not None and sys._getframe(1).f_code.co_name == "get_next_task":
                    tm = VC.tm
                    if not core.deferredFns and (not tm.tasks or tm.tasks[0][0] > self.now):
                        if tm.tasks and tm.tasks[0][0] <= self.horizon:
                            self.now = tm.tasks[0][0]
                        else:
                            core.stop()
                return self.now
        jc = JumpClock()
        VC.clk = jc
        task._time = jc
        L.jc = jc
        _lib = L
    return _lib


def reset():
    L = lib()
    VC.reset(0.0)
    L.jc.horizon = None
    del L.log[:]


def advance(loop, dt):
    """advance virtual time by dt using the chosen loop"""
    L = lib()
    target = L.jc.now + dt
    if loop == "once":
        VC.pump(target)
    else:
        L.jc.horizon = target
        guard = [0]
        try:
            L.core.run(spin=0.0, sigterm=None, sigusr1=None)
        finally:
            L.jc.horizon = None
        L.jc.now = max(L.jc.now, target)


# ---- (1) one-shot histories ---------------------------------------------------------------------

def model_ops(ops):
    """reference scheduler: returns the expected firing log [(task, time)]"""
    now = 0.0
    seq = 0
    pending = {}          # task -> (time, seq)
    last_time = {}
    log = []
    rearm = {}
    for op in ops:
        k = op[0]
        if k == "rearm":
            rearm[op[1]] = list(op[2])
        elif k == "at":
            pending[op[1]] = (float(op[2]), seq)
            last_time[op[1]] = float(op[2])
            seq += 1
        elif k == "after":
            pending[op[1]] = (now + op[2], seq)
            last_time[op[1]] = now + op[2]
            seq += 1
        elif k == "sus":
            pending.pop(op[1], None)
        elif k == "res":
            if op[1] in last_time:
                pending[op[1]] = (last_time[op[1]], seq)
                seq += 1
        elif k == "adv":
            target = now + op[1]
            while True:
                due = [(tv, t) for t, tv in pending.items() if tv[0] <= target]
                if not due:
                    break
                (tt, sq), t = min(due)
                now = max(now, tt)
                log.append((t, now))
                del pending[t]
                if rearm.get(t):
                    pending[t] = (now + rearm[t].pop(0), seq)
                    last_time[t] = pending[t][0]
                    seq += 1
            now = target
    return log


def run_ops(ops, ntasks, loop):
    L = lib()
    reset()
    tasks = [L.T(i) for i in range(ntasks)]
    for op in ops:
        k = op[0]
        if k == "rearm":
            tasks[op[1]].rearm = list(op[2])
        elif k == "at":
            tasks[op[1]].install_task(when=float(op[2]))
        elif k == "after":
            tasks[op[1]].install_task(delta=op[2])
        elif k == "sus":
            tasks[op[1]].suspend_task()
        elif k == "res":
            if tasks[op[1]].taskTime is not None:
                tasks[op[1]].resume_task()
        elif k == "adv":
            advance(loop, op[1])
    return list(L.log)


def check_ops(ops, ntasks, loop):
    ops = list(ops) + [["adv", 50.0]]
    want = model_ops(ops)
    try:
        got = run_ops(ops, ntasks, loop)
    except Exception as err:
        return [("ops:%s:raised:%s" % (loop, type(err).__name__), "%r raised %r" % (ops, err))]
    if got == want:
        return []
    # classify
    gt = [t for t, _ in got]
    wt = [t for t, _ in want]
    from collections import Counter
    if Counter(gt) != Counter(wt):
        extra = Counter(gt) - Counter(wt)
        missing = Counter(wt) - Counter(gt)
        kind = "fired-too-often" if extra else "not-fired"
    elif gt != wt:
        kind = "order"
    else:
        early = any(g[1] < w[1] for g, w in zip(got, want))
        kind = "early" if early else "late"
    return [("ops:%s:%s" % (loop, kind), "ops %r: firing log %r, reference scheduler %r" % (ops[:-1], got, want))]


def ops_nontrivial(ops):
    times = {}
    pend = set()
    nt = False
    now = 0.0
    for op in ops:
        if op[0] in ("at", "after"):
            t = float(op[2]) if op[0] == "at" else now + op[2]
            if op[1] in pend or t in times.values():
                nt = True
            times[op[1]] = t
            pend.add(op[1])
        elif op[0] == "sus":
            if op[1] in pend:
                nt = True
            pend.discard(op[1])
        elif op[0] == "res":
            if op[1] in times:
                pend.add(op[1])
        elif op[0] == "adv":
            now += op[1]
            pend = set(t for t in pend if times[t] > now)
    return nt


# ---- (2) recurring -----------------------------------------------------------------------------------

def check_recurring(interval_ms, offset_ms, t0_ms, nslots, loop):
    L = lib()
    reset()
    I = Fraction(interval_ms).limit_denominator(10 ** 6)
    O = Fraction(offset_ms).limit_denominator(10 ** 6)
    t0 = Fraction(t0_ms) / 1000
    window_end = t0 + nslots * I / 1000 + I / 4000
    # the end of the observation window must not coincide with a slot (a tie there says nothing about the scheduler)
    while ((window_end * 1000 - O) / I).denominator == 1 or abs(float((window_end * 1000 - O) / I) - round(float((window_end * 1000 - O) / I))) < 1e-3:
        window_end += I / 8000
    # exact slots strictly after t0
    k = (t0 * 1000 - O) / I
    k0 = int(k) if k == int(k) else (int(k) if k >= 0 else int(k) - 1)
    slots = []
    kk = k0 - 1
    while True:
        s = (kk * I + O) / 1000
        if s > window_end:
            break
        if s > t0:
            slots.append(s)
        kk += 1
    try:
        L.jc.now = float(t0)
        r = L.Rec(float(interval_ms), float(offset_ms) if offset_ms else None)
        r.install_task()
        advance(loop, float(window_end - t0))
        r.suspend_task()
    except Exception as err:
        return [("rec:%s:raised:%s" % (loop, type(err).__name__), "interval %r offset %r install at %r ms raised %r" % (interval_ms, offset_ms, t0_ms, err))]
    got = [t for _, t in L.log]
    desc = "interval %r ms offset %r ms installed at %r ms" % (interval_ms, offset_ms, t0_ms)
    if len(got) != len(slots):
        # which way?
        kind = "double-or-extra" if len(got) > len(slots) else "skipped-slot"
        return [("rec:%s:%s" % (loop, kind), "%s: %d firings %r for %d slots %r" % (desc, len(got), got[:6], len(slots), [float(s) for s in slots[:6]]))]
    for g, s in zip(got, slots):
        if abs(g - float(s)) > 1e-4:
            return [("rec:%s:off-slot" % loop, "%s: fired at %r, slot is %r" % (desc, g, float(s)))]
    return []


def check_recurring2(phases, loop):
    """the SAME recurring task installed several times: phases = [[interval ms or None, offset ms or None, run for ms], ...];
    None keeps the value of the previous installation (offset 0 is a value, not 'keep')"""
    L = lib()
    reset()
    cur_i, cur_o = None, 0
    now = Fraction(0)
    slots = []
    r = None
    try:
        for pi, (iv, off, run_ms) in enumerate(phases):
            if iv is not None:
                cur_i = Fraction(iv).limit_denominator(10 ** 6)
            if off is not None:
                cur_o = Fraction(off).limit_denominator(10 ** 6)
            end = now + Fraction(run_ms) / 1000
            # keep the end of the phase off every slot
            while abs(float((end * 1000 - cur_o) / cur_i) - round(float((end * 1000 - cur_o) / cur_i))) < 1e-3:
                end += cur_i / 8000
            k = int((now * 1000 - cur_o) / cur_i) - 1
            while True:
                sl = (k * cur_i + cur_o) / 1000
                if sl > end:
                    break
                if sl > now:
                    slots.append(sl)
                k += 1
            if r is None:
                r = L.Rec(float(iv), float(off) if off else None)
                L.jc.now = float(now)
                r.install_task()
            else:
                r.install_task(interval=float(iv) if iv is not None else None, offset=float(off) if off is not None else None)
            advance(loop, float(end - now))
            now = end
        r.suspend_task()
    except Exception as err:
        return [("rec2:%s:raised:%s" % (loop, type(err).__name__), "phases %r raised %r" % (phases, err))]
    got = [t for _, t in L.log]
    if len(got) != len(slots):
        kind = "double-or-extra" if len(got) > len(slots) else "skipped-slot"
        return [("rec2:%s:%s" % (loop, kind), "phases %r: %d firings %r for %d slots %r" % (phases, len(got), got[:10], len(slots), [float(x) for x in slots[:10]]))]
    for g, sl in zip(got, slots):
        if abs(g - float(sl)) > 1e-4:
            return [("rec2:%s:off-slot" % loop, "phases %r: fired at %r, slot is %r (all %r vs %r)" % (phases, g, float(sl), got[:8], [float(x) for x in slots[:8]]))]
    return []


# ---- (3) deferred batches ----------------------------------------------------------------------------------

def check_deferred(n, raise_mask, defer_mask, loop, child_raise_mask=0):
    L = lib()
    reset()
    calls = []

    def child(i):
        calls.append(("c", i))
        if child_raise_mask >> i & 1:
            raise RuntimeError("child %d raises" % i)

    def fn(i):
        calls.append(("f", i))
        if defer_mask >> i & 1:
            L.core.deferred(child, i)
        if raise_mask >> i & 1:
            raise RuntimeError("fn %d raises" % i)
    import functools

    class Callable_(object):
        def __init__(self, i):
            self.i = i

        def __call__(self):
            fn(self.i)

        def method(self):
            fn(self.i)
    for i in range(n):
        # every kind of callable an application may hand over: function + argument, partial, callable object, bound method, lambda
        kind_ = (i + n + raise_mask) % 5
        if kind_ == 0:
            L.core.deferred(fn, i)
        elif kind_ == 1:
            L.core.deferred(functools.partial(fn, i))
        elif kind_ == 2:
            L.core.deferred(Callable_(i))
        elif kind_ == 3:
            L.core.deferred(Callable_(i).method)
        else:
            L.core.deferred(lambda i=i: fn(i))
    try:
        advance(loop, 1.0)
    except Exception as err:
        return [("def:%s:loop-raised:%s" % (loop, type(err).__name__), "batch raise=%s defer=%s: the loop raised %r" % (bin(raise_mask), bin(defer_mask), err))]
    want = [("f", i) for i in range(n)] + [("c", i) for i in range(n) if defer_mask >> i & 1]
    if calls == want:
        return []
    from collections import Counter
    cw, cg = Counter(want), Counter(calls)
    if cg - cw:
        kind = "called-twice"
    elif cw - cg:
        kind = "dropped"
    else:
        kind = "order"
    return [("def:%s:%s" % (loop, kind), "batch of %d, raising %s, deferring %s: calls %r, expected %r" % (n, bin(raise_mask), bin(defer_mask), calls, want))]


# ---- (4) raising tasks among due tasks -------------------------------------------------------------------------

def check_task_raise(n, raise_mask, times, loop, ndeferred=0):
    L = lib()
    reset()
    calls = []
    tasks = [L.T(i, boom=bool(raise_mask >> i & 1)) for i in range(n)]
    for t, when in zip(tasks, times):
        t.install_task(when=float(when))
    for j in range(ndeferred):
        L.core.deferred(calls.append, j)
    try:
        advance(loop, 10.0)
    except Exception as err:
        return [("traise:%s:loop-raised:%s" % (loop, type(err).__name__), "raised %r" % (err,))]
    want = sorted([(float(w), i) for i, w in enumerate(times)])
    want = [(i, w) for w, i in want]
    fails = []
    if list(L.log) != want:
        fails.append(("traise:%s:tasks" % loop, "tasks at %r, raising %s: log %r, expected %r" % (times, bin(raise_mask), L.log, want)))
    if calls != list(range(ndeferred)):
        fails.append(("traise:%s:deferred" % loop, "deferred calls %r, expected %r" % (calls, list(range(ndeferred)))))
    return fails


# ---- judge -------------------------------------------------------------------------------------------------

def judge(case):
    try:
        with watchdog(5):
            return _judge(case)
    except Stall:
        lib().jc.horizon = None
        return Verdict([("%s:%s:stall" % (case["k"], case.get("loop", "once")),
                         "the event loop did not come back within 5 s of real time (normal cost < 1 ms): %r" % (case,))], True, ("stall",))


def _judge(case):
    k = case["k"]
    if k == "ops":
        return Verdict(check_ops(case["ops"], case.get("ntasks", 4), case.get("loop", "once")), ops_nontrivial(case["ops"]), ("ops:" + case.get("loop", "once"),))
    if k == "rec2":
        return Verdict(check_recurring2(case["phases"], case.get("loop", "once")), True, ("rec:re-installed",))
    if k == "rec":
        return Verdict(check_recurring(case["interval"], case["offset"], case["t0"], case.get("nslots", 12), case.get("loop", "once")), True, ("rec",))
    if k == "def":
        return Verdict(check_deferred(case["n"], case["raise"], case["defer"], case.get("loop", "once"), case.get("craise", 0)),
                       bool(case["raise"] or case["defer"]), ("def:" + case.get("loop", "once"),))
    if k == "traise":
        return Verdict(check_task_raise(case["n"], case["raise"], case["times"], case.get("loop", "once"), case.get("ndef", 0)), bool(case["raise"]), ("traise",))
    raise ValueError(k)


# ---- generation ------------------------------------------------------------------------------------------------

def alphabet(ntasks, ats, afters, advs, resume=True):
    a = []
    for t in range(ntasks):
        for x in ats:
            a.append(["at", t, x])
        for d in afters:
            a.append(["after", t, d])
        a.append(["sus", t])
        if resume:
            a.append(["res", t])
    for d in advs:
        a.append(["adv", d])
    return a


def plan(tier, seed):
    specs = []
    # exhaustive families: (name, ntasks, alphabet args, max length)
    fams = [("full", 4, ((1.0, 2.0, 3.0), (0.0, 0.5, 1.0), (0.5, 1.0, 2.5)), 3),
            ("mid", 3, ((1.0, 2.0), (1.0,), (1.0, 1.5)), 4),
            ("two", 2, ((1.0, 2.0), (0.0, 1.0), (0.8, 1.5)), 5)]
    if tier == "thorough":
        fams = [("full", 4, ((1.0, 2.0, 3.0), (0.0, 0.5, 1.0), (0.5, 1.0, 2.5)), 4),
                ("mid", 3, ((1.0, 2.0), (1.0,), (1.0, 1.5)), 5),
                ("two", 2, ((1.0, 2.0), (0.0, 1.0), (1.0, 1.5)), 6),
                ("two-small", 2, ((1.0, 2.0), (1.0,), (1.0,)), 7)]
    for name, nt, args, maxlen in fams:
        alpha = alphabet(nt, *args)
        # shard on the first op
        nshards = min(16, len(alpha))
        for s in range(nshards):
            specs.append(dict(name="ops-%s-%d" % (name, s), kind="opsall", ntasks=nt, alpha=alpha, first=list(range(s, len(alpha), nshards)), maxlen=maxlen,
                              loops=["once", "run"] if name != "two-small" else ["once"]))
    for i in range(4):
        specs.append(dict(name="ops-random-%d" % i, kind="opsrandom", n=150 if tier == "quick" else 1500))
    for i, nt in enumerate((8, 16, 6, 12)):
        specs.append(dict(name="ops-deep-%d" % nt, kind="opsdeep", ntasks=nt, n=150 if tier == "quick" else 2000))
    specs.append(dict(name="ops-rearm", kind="opsrearm", tier=tier))
    specs.append(dict(name="recurring-reinstalled", kind="rec2", tier=tier))
    specs.append(dict(name="recurring", kind="rec", tier=tier))
    specs.append(dict(name="recurring-random", kind="recrandom", n=300 if tier == "quick" else 4000))
    for lp in ("once", "run"):
        specs.append(dict(name="deferred-%s" % lp, kind="def", loop=lp))
        specs.append(dict(name="task-raise-%s" % lp, kind="traise", loop=lp))
    # once more with the library's debug tracing switched on
    specs.append(dict(name="tracing-ops-random", kind="opsrandom", n=60 if tier == "quick" else 600, tracing=True))
    specs.append(dict(name="tracing-recurring-random", kind="recrandom", n=100 if tier == "quick" else 1000, tracing=True))
    return specs


def run(spec, ctx):
    kind = spec["kind"]
    if kind == "opsall":
        alpha = spec["alpha"]
        for ln in range(1, spec["maxlen"] + 1):
            for f in spec["first"]:
                for rest in itertools.product(range(len(alpha)), repeat=ln - 1):
                    ops = [alpha[f]] + [alpha[i] for i in rest]
                    for lp in spec["loops"]:
                        ctx.check(dict(k="ops", ntasks=spec["ntasks"], ops=ops, loop=lp))
        ctx.mark_exhaustive("all op sequences up to length %d over %d tasks (%d-symbol alphabet)" % (spec["maxlen"], spec["ntasks"], len(alpha)))
    elif kind == "opsrandom":
        from hypothesis import strategies as st
        t = st.integers(0, 3)
        op = st.one_of(st.tuples(st.just("at"), t, st.sampled_from([1.0, 2.0, 3.0, 5.0, 8.0, 13.0, 21.0])).map(list),
                       st.tuples(st.just("after"), t, st.sampled_from([0.0, 0.5, 1.0, 2.0])).map(list),
                       st.tuples(st.just("sus"), t).map(list), st.tuples(st.just("res"), t).map(list),
                       st.tuples(st.just("adv"), st.sampled_from([0.5, 1.0, 2.5, 0.8, 0.3])).map(list))
        strat = st.tuples(st.lists(op, min_size=1, max_size=200), st.sampled_from(["once", "run"])).map(lambda x: dict(k="ops", ntasks=4, ops=x[0], loop=x[1]))
        ctx.for_all(strat, spec["n"])
    elif kind == "opsdeep":
        # many tasks pending at once: deep heaps, removals from the middle, equal times
        from hypothesis import strategies as st
        nt = spec["ntasks"]
        t = st.integers(0, nt - 1)
        times = st.one_of(st.sampled_from([1.0, 2.0, 3.0, 5.0, 8.0, 13.0, 21.0]), st.integers(1, 60).map(float), st.integers(1, 400).map(lambda x: x / 8.0))
        op = st.one_of(st.tuples(st.just("at"), t, times).map(list), st.tuples(st.just("at"), t, times).map(list),
                       st.tuples(st.just("after"), t, st.sampled_from([0.0, 0.5, 1.0, 2.0, 7.0, 19.5])).map(list),
                       st.tuples(st.just("sus"), t).map(list), st.tuples(st.just("sus"), t).map(list), st.tuples(st.just("res"), t).map(list),
                       st.tuples(st.just("rearm"), t, st.lists(st.sampled_from([0.0, 0.5, 3.0, 11.0]), min_size=1, max_size=3)).map(list),
                       st.tuples(st.just("adv"), st.sampled_from([0.5, 1.0, 2.5, 0.8, 0.3, 6.0])).map(list))
        # start by filling the heap
        fill = st.lists(st.tuples(st.just("at"), t, times).map(list), min_size=nt // 2, max_size=nt * 2)
        strat = st.tuples(fill, st.lists(op, min_size=1, max_size=120), st.sampled_from(["once", "run"])).map(lambda x: dict(k="ops", ntasks=nt, ops=x[0] + x[1], loop=x[2]))
        ctx.for_all(strat, spec["n"])
    elif kind == "opsrearm":
        # a task that re-installs itself from inside its firing, then is suspended / moved / resumed from outside
        base = [["at", 0, 1.0], ["rearm", 0, [2.0]], ["adv", 1.5]]
        outside = [[], [["sus", 0]], [["at", 0, 5.0]], [["after", 0, 0.5]], [["sus", 0], ["res", 0]], [["at", 0, 2.0]], [["at", 1, 3.0], ["sus", 0]],
                   [["rearm", 0, [1.0, 1.0]]], [["sus", 0], ["at", 0, 9.0], ["rearm", 0, [0.0]]]]
        for o1 in outside:
            for o2 in outside:
                for lp in ("once", "run"):
                    ctx.check(dict(k="ops", ntasks=2, ops=base + o1 + [["adv", 1.0]] + o2 + [["adv", 3.0]], loop=lp))
                    ctx.check(dict(k="ops", ntasks=2, ops=[["after", 0, 0.0], ["rearm", 0, [0.0, 1.0, 0.0]], ["adv", 0.2]] + o1 + [["adv", 2.0]] + o2, loop=lp))
        ctx.mark_exhaustive("self re-arming task x 9 x 9 outside interventions")
    elif kind == "rec2":
        ivs = [100, 250, 1000.0 / 3, 500]
        offs = [None, 0, 25, 33.3]
        for i1 in ivs:
            for o1 in (0, 25, 50):
                for i2 in ivs + [None]:
                    for o2 in offs:
                        for run1 in (180, 1000, 1025):
                            for lp in ("once",) if spec["tier"] == "quick" and run1 != 1000 else ("once", "run"):
                                ctx.check(dict(k="rec2", phases=[[i1, o1, run1], [i2, o2, 1200], [None, None if o2 is None else 0, 700]], loop=lp))
        ctx.mark_exhaustive("one recurring task installed three times: interval x offset (incl. None = keep and an explicit 0) grid")
    elif kind == "rec":
        intervals = [100, 250, 300, 1000.0 / 3, 700.7, 1000, 1500, 10, 333]
        for iv in intervals:
            for off in (0, 1, 33.3, iv - 1, iv / 2.0):
                if off >= iv:
                    continue
                t0s = [0, 1, 7, 100, 250, 299, 300, 301, 1000, 12345, 86400000, 1700000000000]
                # exactly on a slot (when representable in ms)
                for k in (0, 1, 3, 10):
                    s = k * iv + off
                    if abs(s - round(s)) < 1e-9:
                        t0s.append(int(round(s)))
                for t0 in sorted(set(t0s)):
                    for lp in ("once", "run"):
                        ctx.check(dict(k="rec", interval=iv, offset=off, t0=t0, nslots=12 if lp == "once" else 6, loop=lp))
        ctx.mark_exhaustive("recurring interval x offset x install-instant grid")
    elif kind == "recrandom":
        from hypothesis import strategies as st
        iv = st.one_of(st.sampled_from([100, 250, 300, 1000.0 / 3, 700.7, 1000]), st.integers(1, 5000), st.integers(10, 50000).map(lambda x: x / 10.0))
        strat = iv.flatmap(lambda i: st.tuples(st.just(i), st.one_of(st.just(0), st.integers(0, max(0, int(i) - 1)), st.just(33.3 if i > 34 else 0)),
                                              st.one_of(st.integers(0, 10 ** 7), st.integers(0, 40).map(lambda k: int(k * i) if abs(k * i - int(k * i)) < 1e-9 else 0)),
                                              st.sampled_from(["once", "run"]))) \
            .map(lambda t: dict(k="rec", interval=t[0], offset=t[1], t0=t[2], nslots=8, loop=t[3]))
        ctx.for_all(strat, spec["n"])
    elif kind == "def":
        for n in (1, 2, 3, 6):
            for rm in range(1 << n):
                for dm in range(1 << n):
                    ctx.check(dict(k="def", n=n, **{"raise": rm}, defer=dm, loop=spec["loop"]))
        for rm in (0, 1, 5, 63):
            for dm in (63, 21):
                for cm in (1, 4, 63, 42):
                    ctx.check(dict(k="def", n=6, **{"raise": rm}, defer=dm, craise=cm, loop=spec["loop"]))
        ctx.mark_exhaustive("every raising subset x every deferring subset of batches of 1, 2, 3 and 6 functions (%s loop)" % spec["loop"])
    elif kind == "traise":
        for n in (2, 3, 4):
            for rm in range(1 << n):
                for times in ([1.0] * n, [1.0 + (i % 2) for i in range(n)], [float(n - i) for i in range(n)]):
                    for nd in (0, 2):
                        ctx.check(dict(k="traise", n=n, **{"raise": rm}, times=times, loop=spec["loop"], ndef=nd))
        ctx.mark_exhaustive("every raising subset of 2..4 tasks due together / staggered (%s loop)" % spec["loop"])
