"""C11 -- concurrent transactions never cross: replies reach only the request they answer."""
from ..runner import Verdict, watchdog, Stall
from .. import clock as VC
from .. import boot
from ..lab_stack import StackLab, lib as lablib
from ..ref import apci as RA, npci as RN, asn1 as R1

ID = "C11"
LEVEL = "exploration"
RULE = ("Model-based histories on real stacks (virtual LAN + clock): two client stacks and 1..4 server stacks whose applications "
        "answer only on command, so that up to 40 requests are outstanding and clients retransmit; operations: submit a request "
        "(library-allocated or application-chosen invoke ID, including IDs already live to that peer), let a server answer any "
        "pending request, re-inject a copy of an earlier reply frame, inject forged acks / errors / segment-acks / aborts from a "
        "peer's address with matching or foreign invoke IDs (also after completion), advance time below/above the APDU timeout; "
        "plus a driver issuing > 256 sequential requests while some stay open (counter wrap-around). Generated as Hypothesis "
        "operation lists (shrinkable, replayable). Oracle = token model: an ID handed out or accepted is never live to the same "
        "peer (explicit collisions must raise RuntimeError); every confirmation belongs to a live (peer, invoke ID) and carries "
        "the payload of a reply that really came from that peer address with that ID while the request was live; nothing is "
        "delivered for completed or unknown transactions; at quiescence every request had exactly one confirmation; a serving "
        "application sees each (client, invoke ID) request exactly once however often it is retransmitted while pending; equal "
        "IDs from two clients are both served, each answer to its owner. Aborts and segment-acks carrying the CLIENT role flag (the peer "
        "talking about a request of its own) with a live invoke ID must leave our request alone. IOCB histories: requests submitted "
        "through I/O control blocks, whose completion callbacks submit further requests to the same or another peer while others "
        "are queued or in flight; when the servers have answered everything, every IOCB completed exactly once with the answer "
        "to its own request, no request was served twice and no queue is left. Non-trivial: >= 2 simultaneously live requests to one "
        "peer, or an injected foreign/late/duplicate reply. Distinct by the operation list."
        " Also: aborts / segment-acks with the client role flag on live IDs; IOCB histories with chained requests, unconfirmed traffic beside them and aborts of finished IOCBs; segmented requests."
        " The serving application answering everything it holds at once; on the wire a client is sent only the segments its own acks allow (histories without injected frames). Two stacks that both ask and serve under equal invoke IDs with single-frame faults: outcomes as above, nothing handed to an application twice while pending, an unsegmented request repeated only exactly one APDU timeout after it was last sent. The asker withdrawing a request (client abort) at every point of a stalled segmented transfer: that ends the peer's serving transaction and touches nothing else. One reduced copy of a generated shard runs with the library's debug tracing switched on (label tracing-on).")
ASSUMPTIONS = [
    "client APDU timeout (1 s) is shorter than the servers' application timeout (1000 s) so that 'while the original is still being processed' is observable",
    "a request that reuses a (client, invoke ID) pair the server is still processing is a duplicate by design; the model excuses it from the seen-once clause",
    "a forged reply with the right peer address AND invoke ID is indistinguishable from the real one and completes the transaction (counted)",
]

_apps = None


def apps():
    global _apps
    if _apps is None:
        L = lablib()
        A = L.apdu

        def payload_of(anyv):
            try:
                return bytes(anyv.cast_out(L.OctetString))
            except Exception as err:
                return b"?undecodable"

        class Client(L.app.Application):
            _startup_disabled = True

            def __init__(self, device):
                L.app.Application.__init__(self, device)
                self.confs = []

            def confirmation(self, apdu):
                src = apdu.pduSource.addrAddr[0] if apdu.pduSource is not None and apdu.pduSource.addrAddr else None
                inv = getattr(apdu, "apduInvokeID", None)
                if isinstance(apdu, A.ConfirmedPrivateTransferACK):
                    self.confs.append((VC.clk.now, src, inv, "ack", payload_of(apdu.resultBlock)))
                elif isinstance(apdu, A.AbortPDU):
                    self.confs.append((VC.clk.now, src, inv, "abort", apdu.apduAbortRejectReason))
                elif isinstance(apdu, A.RejectPDU):
                    self.confs.append((VC.clk.now, src, inv, "reject", apdu.apduAbortRejectReason))
                elif isinstance(apdu, A.ErrorPDU):
                    self.confs.append((VC.clk.now, src, inv, "error", None))
                elif isinstance(apdu, A.SimpleAckPDU):
                    self.confs.append((VC.clk.now, src, inv, "simpleack", None))
                else:
                    self.confs.append((VC.clk.now, src, inv, "other:" + type(apdu).__name__, None))

        class Server(L.app.Application):
            _startup_disabled = True

            def __init__(self, device):
                L.app.Application.__init__(self, device)
                self.seen = []          # (client mac, invoke, token)
                self.pending = []       # apdus waiting for the command to answer

            def do_ConfirmedPrivateTransferRequest(self, apdu):
                src = apdu.pduSource.addrAddr[0]
                self.seen.append((src, apdu.apduInvokeID, payload_of(apdu.serviceParameters)))
                self.pending.append(apdu)

            def answer(self, k):
                apdu = self.pending.pop(k)
                resp = A.ConfirmedPrivateTransferACK(context=apdu)
                resp.vendorID = 999
                resp.serviceNumber = 1
                resp.resultBlock = L.Any(L.OctetString(b"R" + payload_of(apdu.serviceParameters)))
                self.response(resp)
                return (apdu.pduSource.addrAddr[0], apdu.apduInvokeID)
        _apps = (Client, Server)
    return _apps


CLIENTS = (1, 6)
SERVERS = (2, 3, 4, 5)


def ack_frame(invoke, payload):
    body = R1.encode_tag((R1.CTX, 0, 2, b"\x03\xe7")) + R1.encode_tag((R1.CTX, 1, 1, b"\x01")) + R1.encode_tag((R1.OPEN, 2, 0, b"")) + \
        R1.encode_tag((R1.APP, R1.OCTETS, len(payload), payload)) + R1.encode_tag((R1.CLOSE, 2, 0, b""))
    return RN.encode(dict(msg=None, dadr=None, sadr=None, er=False, prio=0, hop=None,
                          data=RA.encode(dict(type=RA.CACK, seg=False, mor=False, invoke=invoke, service=18, data=body))))


def raw_frame(fields):
    return RN.encode(dict(msg=None, dadr=None, sadr=None, er=False, prio=0, hop=None, data=RA.encode(fields)))


def run_history(ops, nservers):
    L = lablib()
    Client, Server = apps()
    lab = StackLab()
    boot.swallowed.take()
    clients = {}
    for mac in CLIENTS:
        clients[mac] = lab.add_stack(mac, Client, retries=3, apdu_timeout=1000, seg_timeout=500, app_timeout=3000)
    servers = {}
    for mac in SERVERS[:nservers]:
        servers[mac] = lab.add_stack(mac, Server, retries=3, apdu_timeout=1000, seg_timeout=500, app_timeout=1000000)
    att = lab.add_attacker(99)
    fails = []
    token_n = [0]
    # model
    live = {}            # (client, peer, invoke) -> dict(token, eligible=set(payloads))
    done = []            # finished requests: (client, peer, invoke, token)
    submitted = []       # every accepted request: dict(client, peer, invoke, token, shadowed)
    server_busy = {}     # (server, client, invoke) -> token the server is still processing
    used_tokens = {}     # (server, client, invoke) -> every token sent under that key so far
    conf_seen = dict((m, 0) for m in CLIENTS)
    stats = dict(max_live_per_peer=0, injected=0, matched_injections=0, refused_collisions=0)

    def process_confirmations():
        for cm in CLIENTS:
            confs = clients[cm].app.confs
            while conf_seen[cm] < len(confs):
                t, src, inv, kind, payload = confs[conf_seen[cm]]
                conf_seen[cm] += 1
                key = (cm, src, inv)
                ent = live.get(key)
                if ent is None:
                    was = [d for d in done if d[:3] == key]
                    fails.append(("delivered-for-%s-transaction:%s" % ("completed" if was else "unknown", kind),
                                  "client %d got %s (payload %r) from peer %r with invoke ID %r but no such request is live" % (cm, kind, payload, src, inv)))
                    continue
                if kind == "ack":
                    if payload not in ent["eligible"] and payload != b"R" + ent["token"]:
                        fails.append(("crossed-reply", "client %d request %r to peer %d (invoke %d) was confirmed with payload %r, which no reply from that peer with that ID carried (eligible %r)"
                                      % (cm, ent["token"], src, inv, payload, sorted(ent["eligible"]) + [b"R" + ent["token"]])))
                elif kind in ("error", "reject", "simpleack") and kind not in ent["eligible_kinds"]:
                    fails.append(("crossed-reply:%s" % kind, "client %d request to peer %d (invoke %d) confirmed with a %s nobody sent from that peer with that ID" % (cm, src, inv, kind)))
                elif kind == "abort" and payload not in (65,) and "abort" not in ent["eligible_kinds"]:
                    fails.append(("crossed-reply:abort", "client %d request to peer %d (invoke %d) aborted with reason %r although no abort came from that peer with that ID" % (cm, src, inv, payload)))
                del live[key]
                done.append(key + (ent["token"],))

    def settle():
        lab.settle()
        process_confirmations()

    def mark_answered(peer, cm, inv):
        # the peer's own answer with this ID is on its way: whatever the requester makes of it (an acknowledgement, or an abort because
        # the answer finds it in the middle of retransmitting a segmented request) is an outcome caused by that peer and that ID
        ent = live.get((cm, peer, inv))
        if ent is not None:
            ent["eligible_kinds"].add("abort")

    for op in ops:
        k = op[0]
        if k == "req":
            cm = CLIENTS[op[1] % 2]
            peer = SERVERS[op[2] % nservers]
            explicit = op[3]
            token_n[0] += 1
            token = b"T%05d" % token_n[0]
            if len(op) > 4 and op[4]:
                # too long for one APDU: the request (and its answer) travel in segments (2 = many segments, several windows)
                token += b"s" * (1500 if op[4] is True or op[4] == 1 else 9000)
                stats["segmented_requests"] = stats.get("segmented_requests", 0) + 1
            req = L.apdu.ConfirmedPrivateTransferRequest(vendorID=999, serviceNumber=1)
            req.serviceParameters = L.Any(L.OctetString(token))
            req.pduDestination = L.Address(peer)
            if explicit is not None:
                req.apduInvokeID = explicit
            collision = explicit is not None and (cm, peer, explicit) in live
            try:
                clients[cm].app.request(req)
                raised = None
            except RuntimeError as err:
                raised = err
            except Exception as err:
                fails.append(("submit-raised:%s" % type(err).__name__, "request to peer %d with invoke ID %r raised %r" % (peer, explicit, err)))
                break
            if collision:
                if raised is None:
                    fails.append(("live-invoke-id-accepted", "client %d: application-chosen invoke ID %d to peer %d accepted while another request with it is live" % (cm, explicit, peer)))
                else:
                    stats["refused_collisions"] += 1
                settle()
                continue
            if raised is not None:
                nlive = len([1 for key in live if key[0] == cm and key[1] == peer])
                if nlive < 255:
                    fails.append(("submit-refused", "client %d: request to peer %d (invoke %r) refused with %r although only %d IDs are live" % (cm, peer, explicit, raised, nlive)))
                continue
            inv = req.apduInvokeID
            if inv is None:
                fails.append(("no-invoke-id-assigned", "request to peer %d" % peer))
                continue
            if (cm, peer, inv) in live:
                fails.append(("live-invoke-id-handed-out", "client %d: invoke ID %d to peer %d was assigned while request %r with the same ID is still live"
                              % (cm, inv, peer, live[(cm, peer, inv)]["token"])))
                break
            # (a segmented answer keeps the serving side busy with the old request until the transfer is over or given up)
            lingering = any(tr.invokeID == inv and tr.pdu_address == L.Address(cm) for tr in servers[peer].smap.serverTransactions)
            shadowed = (peer, cm, inv) in server_busy or lingering
            live[(cm, peer, inv)] = dict(token=token, eligible=set(), eligible_kinds=set())
            if shadowed:
                # the server is still working on an older request with this very (client, ID): its answer, when it
                # comes, is indistinguishable from an answer to the new request
                for old_token in used_tokens.get((peer, cm, inv), []):
                    live[(cm, peer, inv)]["eligible"].add(b"R" + old_token)
                if lingering:
                    live[(cm, peer, inv)]["eligible_kinds"].add("abort")
            live[(cm, peer, inv)]["earlier_tokens"] = list(used_tokens.get((peer, cm, inv), []))
            used_tokens.setdefault((peer, cm, inv), []).append(token)
            submitted.append(dict(client=cm, peer=peer, invoke=inv, token=token, shadowed=shadowed))
            if not shadowed:
                server_busy[(peer, cm, inv)] = token
            n = len([1 for key in live if key[0] == cm and key[1] == peer])
            stats["max_live_per_peer"] = max(stats["max_live_per_peer"], n)
            settle()
        elif k == "ans":
            peer = SERVERS[op[1] % nservers]
            app = servers[peer].app
            if app.pending:
                k_ = app.pending[op[2] % len(app.pending)]
                mark_answered(peer, k_.pduSource.addrAddr[0], k_.apduInvokeID)
                cm, inv = app.answer(op[2] % len(app.pending))
                server_busy.pop((peer, cm, inv), None)
                settle()
        elif k == "ansall":
            # the serving application answers everything it holds in one go: several (segmented) answers are under way at the same time
            peer = SERVERS[op[1] % nservers]
            app = servers[peer].app
            while app.pending:
                k_ = app.pending[0]
                mark_answered(peer, k_.pduSource.addrAddr[0], k_.apduInvokeID)
                cm, inv = app.answer(0)
                server_busy.pop((peer, cm, inv), None)
            settle()
        elif k == "dup":
            # re-inject a copy of an earlier reply frame (server -> client), verbatim
            replies = [f for f in lab.net.log if f["src"] in SERVERS and f["dst"] in CLIENTS]
            if replies:
                f = replies[op[1] % len(replies)]
                stats["injected"] += 1
                _note_injection(live, f["dst"], f["src"], f["data"], stats)
                lab.inject(f["src"], f["dst"], f["data"])
                settle()
        elif k == "forge":
            _, kind, from_peer, id_choice, cidx, foreign = op
            cm = CLIENTS[cidx % 2]
            src = SERVERS[from_peer % nservers]
            lives = sorted(key for key in live if key[0] == cm)
            dones = [d for d in done if d[0] == cm]
            if foreign == 0 and lives:
                # right ID, but from another peer's address (or the right one, by chance)
                key = lives[id_choice % len(lives)]
                inv = key[2]
            elif foreign == 1 and dones:
                key = dones[id_choice % len(dones)]
                inv, src = key[2], key[1]          # a reply for a completed transaction, from the right peer
            else:
                inv = id_choice % 256
            payload = b"F%03d" % stats["injected"]
            if kind == "ack":
                frame = ack_frame(inv, payload)
            elif kind == "simpleack":
                frame = raw_frame(dict(type=RA.SACK, invoke=inv, service=18))
            elif kind == "error":
                frame = raw_frame(dict(type=RA.ERROR, invoke=inv, service=18, data=bytes.fromhex("0e910091000f1a03e72901")))
            elif kind == "segack":
                frame = raw_frame(dict(type=RA.SEGACK, nak=False, srv=True, invoke=inv, seq=0, win=2))
            elif kind == "abort":
                frame = raw_frame(dict(type=RA.ABORT, srv=True, invoke=inv, reason=9))
            elif kind == "abort-by-client":
                # the peer aborts a request IT made to us (server flag clear): nothing to do with our own request of that number
                frame = raw_frame(dict(type=RA.ABORT, srv=False, invoke=inv, reason=9))
            elif kind == "segack-by-client":
                frame = raw_frame(dict(type=RA.SEGACK, nak=False, srv=False, invoke=inv, seq=0, win=2))
            else:
                frame = raw_frame(dict(type=RA.REJECT, invoke=inv, reason=4))
            stats["injected"] += 1
            _note_injection(live, cm, src, frame, stats)
            lab.inject(src, cm, frame)
            settle()
        elif k == "adv":
            lab.run(lab.now + op[1])
            VC.clk.now = max(VC.clk.now, lab.now)
            process_confirmations()
        if fails:
            break
    if not fails:
        # every server answers what it still holds, then everything must come to rest
        for peer, st_ in servers.items():
            while st_.app.pending:
                mark_answered(peer, st_.app.pending[0].pduSource.addrAddr[0], st_.app.pending[0].apduInvokeID)
                cm, inv = st_.app.answer(0)
                server_busy.pop((peer, cm, inv), None)
                settle()
        lab.run(lab.now + 60.0)
        process_confirmations()
        for key, ent in sorted(live.items()):
            fails.append(("no-confirmation", "client %d request %r to peer %d (invoke %d) never got an outcome" % (key[0], ent["token"], key[1], key[2])))
            break
        # every request was confirmed exactly once
        from collections import Counter
        cnt = Counter((d[0], d[3]) for d in done)
        for s in submitted:
            if cnt.get((s["client"], s["token"]), 0) > 1:
                fails.append(("confirmed-twice", "request %r confirmed %d times" % (s["token"], cnt[(s["client"], s["token"])])))
                break
        # the serving applications saw each request exactly once
        for peer, st_ in servers.items():
            seen = Counter(st_.app.seen)
            for s in submitted:
                if s["peer"] != peer or s["shadowed"]:
                    continue
                n = seen.get((s["client"], s["invoke"], s["token"]), 0)
                if n > 1:
                    fails.append(("request-indicated-%d-times" % min(n, 3), "server %d saw request %r (client %d, invoke %d) %d times" % (peer, s["token"], s["client"], s["invoke"], n)))
                    break
                if n == 0:
                    fails.append(("request-never-indicated", "server %d never saw request %r (client %d, invoke %d)" % (peer, s["token"], s["client"], s["invoke"])))
                    break
            extra = [x for x in seen if not any(x == (s["client"], s["invoke"], s["token"]) for s in submitted)]
            if extra:
                fails.append(("server-saw-unknown-request", "server %d saw %r" % (peer, extra[:2])))
    if not fails and not stats["injected"]:
        # (histories without injected frames only: a forged frame is indistinguishable from a real one in the wire log)
        # on the wire: a client is sent only the segments ITS OWN acknowledgements allow (an ack of another client with the same ID must not move its window)
        st8 = {}
        for f in lab.net.log:
            if f.get("act") and f["act"][0] == "drop":
                continue
            try:
                a = RA.decode(RN.decode(f["data"])["data"])
            except Exception:
                continue
            if a["type"] == 3 and a.get("seg") and f["src"] in SERVERS and f["dst"] in CLIENTS:
                k8 = (f["src"], f["dst"], a["invoke"])
                e8 = st8.setdefault(k8, dict(upto=-1, acked=None, win=None))
                if a["seq"] == 0 and e8["upto"] >= 0 and e8["acked"] is not None and e8["upto"] == e8["acked"]:
                    e8.update(upto=-1, acked=None, win=None)          # a new answer under the same key
                if a["seq"] > e8["upto"]:
                    if a["seq"] > 0 and (e8["acked"] is None or a["seq"] > e8["acked"] + (e8["win"] or 0)):
                        fails.append(("response-segment-beyond-own-acks", "server %d sent client %d segment %d of the answer with invoke ID %d although that client has acknowledged only up to %r (window %r)"
                                      % (f["src"], f["dst"], a["seq"], a["invoke"], e8["acked"], e8["win"])))
                        break
                    e8["upto"] = a["seq"]
            elif a["type"] == 4 and not a.get("srv") and f["src"] in CLIENTS and f["dst"] in SERVERS:
                e8 = st8.get((f["dst"], f["src"], a["invoke"]))
                if e8 is not None and not a.get("nak"):
                    e8["acked"] = max(e8["acked"] if e8["acked"] is not None else -1, a["seq"])
                    e8["win"] = a["win"]
    sw = [r for r in boot.swallowed.take() if r[0]]
    if fails and sw:
        fails = [(fails[0][0] + ":%s@%s" % (sw[0][0], sw[0][1]), fails[0][1] + " swallowed %r" % (sw[:2],))] + fails[1:]
    return fails[:2], stats


def _note_injection(live, client, src, frame, stats):
    """an injected frame that names a live (peer, invoke ID) is a legitimate-looking reply: its payload becomes eligible"""
    try:
        a = RA.decode(RN.decode(frame)["data"])
    except Exception:
        return
    ent = live.get((client, src, a.get("invoke")))
    if ent is None:
        return
    if a["type"] in (RA.ABORT, RA.SEGACK) and not a.get("srv"):
        stats["client_flagged"] = stats.get("client_flagged", 0) + 1
        return          # sent in the peer's role as a client: not a reply to anything we asked
    stats["matched_injections"] += 1
    # a reply with the right address and ID may find the requester in a state where it can only abort (e.g. while it retransmits
    # a segmented request): still an outcome caused by that peer and that ID
    ent["eligible_kinds"].add("abort")
    if a["type"] == RA.CACK and a.get("seg"):
        # one segment of an earlier segmented answer that travelled under this very (peer, ID): the requester takes it for the start of
        # its own answer, and what the peer makes of the segment-acks that follow may complete it with that earlier content
        ent["eligible"].add(b"?undecodable")
        for old_token in ent.get("earlier_tokens", ()):
            ent["eligible"].add(b"R" + old_token)
    elif a["type"] == RA.CACK:
        try:
            tags, _ = R1.decode_tags(a["data"])
            ent["eligible"].add(bytes(tags[3][3]))
        except Exception:
            ent["eligible"].add(b"?undecodable")
    ent["eligible_kinds"].add({RA.SACK: "simpleack", RA.ERROR: "error", RA.REJECT: "reject", RA.ABORT: "abort"}.get(a["type"], "x"))



# ---- requests through I/O control blocks, chained from completion callbacks ------------------------------------------------------

_ioapp = None


def io_client():
    global _ioapp
    if _ioapp is None:
        L = lablib()

        from bacpypes.service.device import WhoIsIAmServices

        class ClientIO(L.app.ApplicationIOController, WhoIsIAmServices):
            _startup_disabled = True

            def __init__(self, device):
                L.app.ApplicationIOController.__init__(self, device)
        _ioapp = ClientIO
    return _ioapp


def raw_unconfirmed(service, body):
    return RN.encode(dict(msg=None, dadr=None, sadr=None, er=False, prio=0, hop=None, data=bytes([0x10, service]) + bytes(body)))


def run_io_history(ops, nservers):
    """ops: ["io", peer, chain] submit an IOCB whose completion callback submits `chain` more requests to the same peer, one after the other;
    ["io2", peer, other] its callback submits one request to ANOTHER peer; ["ans", server, k]; ["adv", dt]"""
    L = lablib()
    from bacpypes.iocb import IOCB
    Client, Server = apps()
    lab = StackLab()
    boot.swallowed.take()
    cl = lab.add_stack(1, io_client(), retries=3, apdu_timeout=1000000, seg_timeout=500, app_timeout=3000)
    lab.add_attacker(99)
    servers = {}
    for mac in SERVERS[:nservers]:
        servers[mac] = lab.add_stack(mac, Server, retries=3, apdu_timeout=1000, seg_timeout=500, app_timeout=10000000)
    recs = []            # dict(token, peer, done=[(state, payload)])
    iocbs = []
    stats = dict(max_live_per_peer=0, injected=0, matched_injections=0, refused_collisions=0, chained=0, iocbs=0)
    fails = []

    def payload_of(anyv):
        try:
            return bytes(anyv.cast_out(L.OctetString))
        except Exception:
            return b"?undecodable"

    def submit(peer, chain, other=None):
        token = b"I%05d" % len(recs)
        rec = dict(token=token, peer=peer, done=[])
        recs.append(rec)
        stats["iocbs"] += 1
        req = L.apdu.ConfirmedPrivateTransferRequest(vendorID=999, serviceNumber=1)
        req.serviceParameters = L.Any(L.OctetString(token))
        req.pduDestination = L.Address(peer)
        iocb = IOCB(req)

        def cb(io):
            if io.ioResponse is not None:
                r = io.ioResponse
                rec["done"].append(("ack" if isinstance(r, L.apdu.ConfirmedPrivateTransferACK) else type(r).__name__,
                                    payload_of(r.resultBlock) if isinstance(r, L.apdu.ConfirmedPrivateTransferACK) else None, getattr(r, "apduInvokeID", None)))
            else:
                rec["done"].append(("error", repr(io.ioError), None))
            if other is not None:
                stats["chained"] += 1
                submit(other, 0)
            elif chain > 0:
                stats["chained"] += 1
                submit(peer, chain - 1)
        iocb.add_callback(cb)
        iocbs.append(iocb)
        cl.app.request_io(iocb)

    for op in ops:
        k = op[0]
        try:
            if k == "io":
                submit(SERVERS[op[1] % nservers], op[2])
            elif k == "io2":
                submit(SERVERS[op[1] % nservers], 0, other=SERVERS[op[2] % nservers])
            elif k == "ans":
                app = servers[SERVERS[op[1] % nservers]].app
                if app.pending:
                    app.answer(op[2] % len(app.pending))
            elif k == "reabort":
                # housekeeping code aborts an IOCB that is already finished: a documented no-op
                fin = [io for io, r in zip(iocbs, recs) if r["done"]]
                if fin:
                    stats["reaborts"] = stats.get("reaborts", 0) + 1
                    fin[op[1] % len(fin)].abort(RuntimeError("late watchdog"))
            elif k == "unconf":
                # unconfirmed traffic to a peer that may have a confirmed request outstanding: sent directly by the application ...
                stats["unconfirmed"] = stats.get("unconfirmed", 0) + 1
                rq = L.apdu.WhoIsRequest()
                rq.pduDestination = L.Address(SERVERS[op[1] % nservers])
                cl.app.request(rq)
            elif k == "whois":
                # ... or provoked by the peer: its Who-Is makes the stock service answer with an I-Am addressed to it
                stats["unconfirmed"] = stats.get("unconfirmed", 0) + 1
                lab.inject(SERVERS[op[1] % nservers], 1, raw_unconfirmed(8, b""))
            elif k == "adv":
                lab.run(lab.now + op[1])
                VC.clk.now = max(VC.clk.now, lab.now)
        except Exception as err:
            fails.append(("io:step-raised:%s" % type(err).__name__, "step %r raised %r" % (op, err)))
            break
        lab.settle()
        live = {}
        for r in recs:
            if not r["done"]:
                live[r["peer"]] = live.get(r["peer"], 0) + 1
        stats["max_live_per_peer"] = max([stats["max_live_per_peer"]] + list(live.values()))
    # drain: let the servers answer everything, as often as chained requests keep coming
    for _ in range(len(recs) * 2 + 60):
        any_ = False
        for mac in sorted(servers):
            app = servers[mac].app
            while app.pending:
                app.answer(0)
                any_ = True
                lab.settle()
        lab.run(lab.now + 0.5)
        if not any_ and all(r["done"] for r in recs):
            break
    sw = [r for r in boot.swallowed.take() if r[0]]
    exc = ":%s@%s" % (sw[0][0], sw[0][1]) if sw else ""
    for r in recs:
        if len(r["done"]) == 0:
            fails.append(("io:never-completed%s" % exc, "the IOCB for request %r to peer %d never completed although every server answered everything it received; all: %r"
                          % (r["token"], r["peer"], [(x["token"], x["peer"], x["done"]) for x in recs][:8])))
            break
        if len(r["done"]) > 1:
            fails.append(("io:completed-twice%s" % exc, "the IOCB for request %r completed %d times: %r" % (r["token"], len(r["done"]), r["done"])))
            break
        kind, payload, inv = r["done"][0]
        if kind != "ack" or payload != b"R" + r["token"]:
            fails.append(("io:crossed-reply%s" % exc, "the IOCB for request %r to peer %d was completed with %s %r (invoke ID %r), not with the answer to it" % (r["token"], r["peer"], kind, payload, inv)))
            break
    for mac in sorted(servers):
        seen = [t for (_, _, t) in servers[mac].app.seen]
        if len(seen) != len(set(seen)):
            fails.append(("io:request-served-twice", "server %d saw %r" % (mac, seen)))
            break
    if cl.app.queue_by_address and not fails:
        fails.append(("io:queue-left-behind", "queue_by_address still has %r after everything completed" % (sorted(str(k) for k in cl.app.queue_by_address),)))
    return fails[:2], stats


_peer = None


def peer_app():
    """an application that asks and serves: both roles on one stack"""
    global _peer
    if _peer is None:
        Client, Server = apps()

        class Peer(Client, Server):
            def __init__(self, device):
                Client.__init__(self, device)
                self.seen = []
                self.pending = []
        _peer = Peer
    return _peer


BIDIR_APDU_TIMEOUT = 3.0


def run_bidir(ops, faults, segt=500, win=2):
    """two stacks that both ask and serve, with equal invoke IDs under way in both directions at once, segmented answers and
    single-frame faults; no injected frames.  ops: ["req", who, invoke, big] / ["ans", who, k] / ["ansall", who] / ["adv", dt]"""
    L = lablib()
    Peer = peer_app()
    lab = StackLab()
    boot.swallowed.take()
    macs = (1, 2)
    st = dict((m, lab.add_stack(m, Peer, retries=2, apdu_timeout=int(BIDIR_APDU_TIMEOUT * 1000), seg_timeout=segt, app_timeout=1000000,
                                max_apdu=206, window=win)) for m in macs)
    lab.net.plan = dict((int(k), tuple(v)) for k, v in faults.items())
    lab.add_attacker(99)
    withdrawn = set()   # (asker, invoke)
    excused = set()     # (serving stack, asker, invoke): the asker has withdrawn that request (client abort), serving it again on a repetition is in order
    fails = []
    live = {}           # (asker, invoke) -> token
    finished = []       # (asker, invoke, token, kind)
    used = set()
    conf_seen = dict((m, 0) for m in macs)
    stats = dict(max_live_per_peer=0, injected=0, matched_injections=0, refused_collisions=0, both_directions_same_id=0, requests=0)
    ntok = [0]

    def process():
        for m in macs:
            confs = st[m].app.confs
            while conf_seen[m] < len(confs):
                t, src, inv, kind, payload = confs[conf_seen[m]]
                conf_seen[m] += 1
                tok = live.pop((m, inv), None)
                if (m, inv) in withdrawn:
                    continue        # whatever becomes of a request its asker has withdrawn is not judged
                if tok is None:
                    fails.append(("bidir:delivered-for-no-live-request:%s" % kind, "stack %d got %s with invoke ID %r from %r; nothing of its own is live under that ID" % (m, kind, inv, src)))
                    continue
                if kind == "ack" and payload != b"R" + tok:
                    fails.append(("bidir:crossed-reply", "stack %d asked %r... (invoke %d) and was confirmed with %r..." % (m, tok[:8], inv, (payload or b"")[:9])))
                elif kind not in ("ack", "abort"):
                    fails.append(("bidir:crossed-reply:%s" % kind, "stack %d, invoke %d: confirmed with a %s nobody sent" % (m, inv, kind)))
                finished.append((m, inv, tok, kind))
        # a request still being processed is not handed to the application a second time
        for m in macs:
            keys = [(a.pduSource.addrAddr[0], a.apduInvokeID) for a in st[m].app.pending]
            for key in set(keys):
                if keys.count(key) > 1 and (m,) + key not in excused:
                    fails.append(("bidir:retransmission-handed-to-application-again", "stack %d holds %d copies of request %r" % (m, keys.count(key), key)))

    def settle():
        lab.settle()
        process()

    def answer(m, k):
        app = st[m].app
        if app.pending:
            app.answer(k % len(app.pending))

    for op in ops:
        k = op[0]
        try:
            if k == "req":
                m = macs[op[1] % 2]
                inv = op[2]
                if (m, inv) in used:
                    continue        # an ID is used once per asker: no answer to an older request can be mistaken for this one's
                used.add((m, inv))
                ntok[0] += 1
                tok = b"T%05d" % ntok[0]
                if op[3]:
                    tok += bytes((ntok[0] * 13 + i * 7) & 0xFF for i in range(700 if op[3] is True or op[3] == 1 else 2200))
                req = L.apdu.ConfirmedPrivateTransferRequest(vendorID=999, serviceNumber=1)
                req.serviceParameters = L.Any(L.OctetString(tok))
                req.pduDestination = L.Address(3 - m)
                req.apduInvokeID = inv
                st[m].app.request(req)
                live[(m, inv)] = tok
                stats["requests"] += 1
                if (3 - m, inv) in live:
                    stats["both_directions_same_id"] += 1
                stats["max_live_per_peer"] = max(stats["max_live_per_peer"], len([1 for key in live if key[0] == m]))
            elif k == "ans":
                answer(macs[op[1] % 2], op[2])
            elif k == "ansall":
                while st[macs[op[1] % 2]].app.pending:
                    answer(macs[op[1] % 2], 0)
            elif k == "cabort":
                # the asker withdraws a request of its own (an abort with the server flag clear, as a client sends it): that concerns the
                # peer's serving transaction with that ID and nothing else - not the peer's own request with the same number, and
                # nothing at the asker
                m = macs[op[1] % 2]
                # (also when nothing is live under that number: a delayed abort may meet a later request)
                excused.add((3 - m, m, op[2]))
                withdrawn.add((m, op[2]))
                stats["client_aborts"] = stats.get("client_aborts", 0) + 1
                lab.inject(m, 3 - m, raw_frame(dict(type=RA.ABORT, srv=False, invoke=op[2], reason=9)))
            elif k == "adv":
                lab.run(lab.now + op[1])
                VC.clk.now = max(VC.clk.now, lab.now)
        except Exception as err:
            fails.append(("bidir:step-raised:%s" % type(err).__name__, "step %r raised %r" % (op, err)))
            break
        settle()
        if fails:
            break
    if not fails:
        for rnd in range(12):
            for m in macs:
                while st[m].app.pending:
                    answer(m, 0)
            settle()
            lab.run(lab.now + 60.0)
            VC.clk.now = max(VC.clk.now, lab.now)
            process()
            if not [k_ for k_ in live if k_ not in withdrawn] and not any(st[m].app.pending for m in macs):
                break
        for (m, inv), tok in sorted(live.items()):
            if (m, inv) in withdrawn:
                continue
            fails.append(("bidir:request-without-outcome", "stack %d, invoke %d (%r...): no confirmation although everything was answered and a minute passed" % (m, inv, tok[:8])))
        for m in macs:
            if st[m].smap.clientTransactions or st[m].smap.serverTransactions:
                fails.append(("bidir:residue", "stack %d keeps %d client / %d server transactions" % (m, len(st[m].smap.clientTransactions), len(st[m].smap.serverTransactions))))
    # the wire: an unsegmented request is repeated only when its own APDU timeout has run out, i.e. exactly that long after it
    # was last sent; anything else means something that was not meant for this transaction touched its timer
    sent = {}
    nfaults = 0
    for f in lab.frames():
        if f["act"][0] != "pass":
            nfaults += 1
        a = f.get("apci")
        if not a or a["type"] != 0 or a.get("seg"):
            continue
        key = (f["src"], a["invoke"], bytes(f["data"]))
        if key in sent:
            gap = f["t"] - sent[key]
            if abs(gap - BIDIR_APDU_TIMEOUT) > 1e-6:
                fails.append(("bidir:request-repeated-off-schedule", "stack %r repeats its request (invoke %d) %.3f s after sending it; its APDU timeout is %.1f s"
                              % (f["src"], a["invoke"], gap, BIDIR_APDU_TIMEOUT)))
        sent[key] = f["t"]
    stats["faults_applied"] = nfaults
    sw = [r for r in boot.swallowed.take() if r[0]]
    if sw and fails:
        fails = [(fails[0][0] + ":%s@%s" % (sw[0][0], sw[0][1]), fails[0][1] + " swallowed %r" % (sw[:2],))] + fails[1:]
    return fails[:4], stats


def judge(case):
    if case.get("k") == "bidir":
        try:
            with watchdog(120):
                fails, stats = run_bidir(case["ops"], case.get("faults", {}), case.get("segt", 500), case.get("win", 2))
        except Stall:
            return Verdict([("stall", "the lab did not come back within 120 s of real time")], True, ("stall",))
        labels = ["bidir"]
        if stats["both_directions_same_id"]:
            labels.append("bidir:same-id-both-directions")
        if stats["faults_applied"]:
            labels.append("bidir:fault-applied")
        if stats.get("client_aborts"):
            labels.append("bidir:client-withdraws-a-request")
        return Verdict(fails, stats["both_directions_same_id"] > 0, labels)
    try:
        with watchdog(120):
            if case.get("k") == "io":
                fails, stats = run_io_history(case["ops"], case.get("nservers", 2))
            else:
                fails, stats = run_history(case["ops"], case.get("nservers", 2))
    except Stall:
        return Verdict([("stall", "the lab did not come back within 120 s of real time")], True, ("stall",))
    nt = stats["max_live_per_peer"] >= 2 or stats["injected"] > 0 or stats.get("chained", 0) > 0
    labels = ["live>=2" if stats["max_live_per_peer"] >= 2 else "live<2"]
    if case.get("k") == "io":
        labels.append("iocb")
        if stats.get("chained"):
            labels.append("iocb:chained-from-callback")
    if stats.get("client_flagged"):
        labels.append("client-flagged-abort-or-segack-on-live-id")
    if stats["matched_injections"]:
        labels.append("injection-matched-live-id")
    if stats["refused_collisions"]:
        labels.append("explicit-collision-refused")
    if stats["max_live_per_peer"] >= 10:
        labels.append("live>=10")
    if stats.get("segmented_requests"):
        labels.append("segmented-request")
    return Verdict(fails, nt, labels)


# ---- generation ---------------------------------------------------------------------------------------------------------------

def plan(tier, seed):
    specs = []
    for i in range(12):
        specs.append(dict(name="histories-%d" % i, kind="hist", n=800 if tier == "quick" else 20000))
    for i in range(8):
        specs.append(dict(name="bursts-%d" % i, kind="burst", n=250 if tier == "quick" else 10000))
    for i in range(4):
        specs.append(dict(name="iocb-%d" % i, kind="io", n=600 if tier == "quick" else 20000))
    specs.append(dict(name="wrap", kind="wrap", tier=tier))
    specs.append(dict(name="twins", kind="twins"))
    specs.append(dict(name="both-directions-directed", kind="bidir-directed", tier=tier))
    for i in range(4):
        specs.append(dict(name="both-directions-%d" % i, kind="bidir", n=300 if tier == "quick" else 8000))
    # once more with the library's debug tracing switched on
    specs.append(dict(name="tracing-histories", kind="hist", n=150 if tier == "quick" else 3000, tracing=True))
    specs.append(dict(name="tracing-iocb", kind="io", n=100 if tier == "quick" else 3000, tracing=True))
    return specs


def op_strategy():
    from hypothesis import strategies as st
    req = st.tuples(st.just("req"), st.integers(0, 1), st.integers(0, 3), st.one_of(st.none(), st.none(), st.integers(0, 6), st.integers(0, 255)),
                    st.sampled_from([False, False, False, True])).map(list)
    ans = st.one_of(st.tuples(st.just("ans"), st.integers(0, 3), st.integers(0, 7)).map(list), st.tuples(st.just("ans"), st.integers(0, 3), st.integers(0, 7)).map(list),
                    st.tuples(st.just("ansall"), st.integers(0, 3)).map(list))
    dup = st.tuples(st.just("dup"), st.integers(0, 30)).map(list)
    forge = st.tuples(st.just("forge"), st.sampled_from(["ack", "ack", "simpleack", "error", "segack", "abort", "reject", "abort-by-client", "abort-by-client", "segack-by-client"]), st.integers(0, 3),
                      st.integers(0, 255), st.integers(0, 1), st.integers(0, 2)).map(list)
    adv = st.tuples(st.just("adv"), st.sampled_from([0.3, 0.9, 1.0, 1.1, 2.5, 4.5])).map(list)
    return st.one_of(req, req, req, ans, ans, dup, forge, forge, adv)


def run(spec, ctx):
    kind = spec["kind"]
    if kind == "hist":
        from hypothesis import strategies as st
        strat = st.tuples(st.lists(op_strategy(), min_size=1, max_size=60), st.integers(1, 4)).map(lambda t: dict(k="hist", ops=t[0], nservers=t[1]))
        ctx.for_all(strat, spec["n"])
    elif kind == "io":
        from hypothesis import strategies as st
        io_ = st.tuples(st.just("io"), st.integers(0, 3), st.sampled_from([0, 0, 1, 1, 2, 3])).map(list)
        io2 = st.tuples(st.just("io2"), st.integers(0, 3), st.integers(0, 3)).map(list)
        ans = st.tuples(st.just("ans"), st.integers(0, 3), st.integers(0, 7)).map(list)
        adv = st.tuples(st.just("adv"), st.sampled_from([0.0, 0.3, 2.0])).map(list)
        unconf = st.tuples(st.sampled_from(["unconf", "whois", "reabort", "reabort"]), st.integers(0, 3)).map(list)
        strat = st.tuples(st.lists(st.one_of(io_, io_, io2, ans, ans, ans, adv, unconf), min_size=2, max_size=40), st.integers(1, 3)).map(lambda t: dict(k="io", ops=t[0], nservers=t[1]))
        ctx.for_all(strat, spec["n"])
    elif kind == "burst":
        # many requests outstanding at once (up to 40), then answers in any order mixed with injections and time
        from hypothesis import strategies as st
        reqs = st.lists(st.tuples(st.just("req"), st.integers(0, 1), st.integers(0, 3), st.one_of(st.none(), st.none(), st.none(), st.integers(0, 20))).map(list),
                        min_size=5, max_size=40)
        rest = st.lists(op_strategy(), max_size=60)
        strat = st.tuples(reqs, rest, st.integers(1, 4)).map(lambda t: dict(k="hist", ops=t[0] + t[1], nservers=t[2]))
        ctx.for_all(strat, spec["n"])
    elif kind == "wrap":
        # more than 256 requests in sequence while some stay open: the counter wraps and must skip the live IDs
        for hold_every in (50, 100, 7):
            ops = []
            for i in range(300 if spec["tier"] == "quick" else 600):
                ops.append(["req", 0, 0, None])
                if i % hold_every != 3:
                    ops.append(["ans", 0, -1 % 8 if False else 7])     # answer the most recent request (index taken modulo the pending list)
            ctx.check(dict(k="hist", ops=ops, nservers=1))
        # an application-chosen ID ahead of the counter
        for ahead in (1, 2, 3, 5):
            ops = [["req", 0, 0, ahead + 1]] + [["req", 0, 0, None] for _ in range(ahead + 3)] + [["adv", 0.5]]
            ctx.check(dict(k="hist", ops=ops, nservers=1))
    elif kind == "bidir-directed":
        # both stacks ask one another under the same invoke ID; one answer travels in segments; every single frame of the exchange is
        # dropped, doubled or delayed in turn
        for big in (True, 2):
            for win in (1, 2, 4) if spec["tier"] == "thorough" else (2,):
                for first in (0, 1):
                    for pause in (None, 0.7, 1.2):
                        # (with a pause the answer finds the asker in whatever state the fault has left it in)
                        tail = ([["adv", pause]] if pause else []) + [["ans", 1 - first, 0], ["adv", 10.0]]
                        ops = ([["req", 1 - first, 1, False], ["req", first, 1, big]] if first == 0 else [["req", first, 1, big], ["req", 1 - first, 1, False]]) + tail
                        ctx.check(dict(k="bidir", ops=ops, faults={}, win=win))
                        for i in range(0, 14 if big is True else 36):
                            for act in (["drop"], ["dup"], ["delay", 0.2]) if spec["tier"] == "thorough" or big is True else (["drop"], ["dup"]):
                                ctx.check(dict(k="bidir", ops=ops, faults={str(i): act}, win=win))
        # the asker withdraws its request at every point of a stalled segmented transfer (request or answer)
        for big in (True, 2):
            for first in (0, 1):
                for stage in ("request", "answer"):
                    for i in range(0, 14 if big is True else 30):
                        head = [["req", 1 - first, 1, False], ["req", first, 1, big]]
                        mid = [["ans", 1 - first, 0]] if stage == "answer" else []
                        for pause in (None, 0.2):
                            ops = head + mid + ([["adv", pause]] if pause else []) + [["cabort", first, 1], ["adv", 3.1], ["adv", 10.0]]
                            ctx.check(dict(k="bidir", ops=ops, faults={str(i): ["drop"]}))
    elif kind == "bidir":
        from hypothesis import strategies as st
        req = st.tuples(st.just("req"), st.integers(0, 1), st.sampled_from([1, 1, 1, 2, 2, 3]), st.sampled_from([False, False, True, True, 2])).map(list)
        ans = st.tuples(st.just("ans"), st.integers(0, 1), st.integers(0, 3)).map(list)
        ansall = st.tuples(st.just("ansall"), st.integers(0, 1)).map(list)
        adv = st.tuples(st.just("adv"), st.sampled_from([0.1, 0.4, 0.6, 1.0, 2.9, 3.0, 3.1, 10.0])).map(list)
        act = st.sampled_from([["drop"], ["drop"], ["dup"], ["delay", 0.2], ["delay", 0.7]])
        faults = st.dictionaries(st.integers(0, 50).map(str), act, max_size=3)
        cab = st.tuples(st.just("cabort"), st.integers(0, 1), st.sampled_from([1, 1, 2, 3])).map(list)
        strat = st.tuples(st.lists(st.one_of(req, req, req, req, ans, ans, ans, ansall, adv, adv, cab), min_size=2, max_size=16), faults, st.sampled_from([500, 1000]), st.sampled_from([1, 2, 2, 4])) \
            .map(lambda t: dict(k="bidir", ops=t[0], faults=t[1], segt=t[2], win=t[3]))
        ctx.for_all(strat, spec["n"])
    elif kind == "twins":
        # equal invoke IDs from two clients at one server, answers in segments and under way at the same time
        for n in (1, 2, 4):
            for big in ((True, True), (True, False), (False, True), (2, 2), (2, True)):
                ops = []
                for i in range(n):
                    ops.append(["req", 0, 0, 10 + i, big[0]])
                    ops.append(["req", 1, 0, 10 + i, big[1]])
                ctx.check(dict(k="hist", ops=ops + [["ansall", 0]], nservers=1))
                ctx.check(dict(k="hist", ops=ops[::-1] + [["ansall", 0], ["adv", 0.3]], nservers=1))
        # equal invoke IDs from two clients at one server
        for n in (1, 3, 8):
            ops = []
            for i in range(n):
                ops.append(["req", 0, 0, 10 + i])
                ops.append(["req", 1, 0, 10 + i])
            for order in range(2 * n):
                ops.append(["ans", 0, (order * 3) % 5])
            ctx.check(dict(k="hist", ops=ops, nservers=1))
            ctx.check(dict(k="hist", ops=ops[:2 * n] + [["adv", 1.1]] + ops[2 * n:], nservers=1))
