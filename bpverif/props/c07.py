"""C07 -- APDU fixed headers carry every field of all eight PDU types faithfully."""
import itertools
from ..runner import Verdict
from ..ref import apci as R

ID = "C07"
LEVEL = "exploration"
DESIGN_REF = "DESIGN.md#c07"
RULE = ("Enumerated: the full cross product of flag bits, max-segments code 0..7, max-response code 0..15 and "
        "boundary values {0,1,127,128,255} of every octet field for each of the 8 PDU types, each with an empty "
        "and a position-dependent payload (distinct by construction); the four table functions on all code points "
        "and every capability 0..2000 (+ large values); all octet strings of length <= 2 (<= 3 thorough) and "
        "Hypothesis-generated random strings / mutated valid headers through the decoder. Oracle: independent "
        "reference APCI codec (clause 20.1 bit layout) both directions + field restoration + table semantics. "
        "Non-trivial: a header with a flag set or a segmented layout, a table argument that is not itself a table "
        "entry, an octet string the reference classifies differently from its first-octet type alone (decodable "
        "with >= 3 header octets, or rejected as truncated). Distinct by octets / argument."
        " Also: every header built through the typed class's constructor arguments, positionally and by keyword."
        " One reduced copy of a generated shard runs with the library's debug tracing switched on (label tracing-on).")
ASSUMPTIONS = [
    "reference codec bpverif/ref/apci.py transcribes clause 20.1.2-20.1.9 correctly",
    "reserved bits of received headers are ignored by both sides (bit 7 of the max-segments octet, low bits of types without flags)",
    "field values outside one octet / code ranges are not generated (callers never produce them)",
]

B = (0, 1, 127, 128, 255)
FIELDS = ["type", "seg", "mor", "sa", "srv", "nak", "seq", "win", "maxsegs", "maxresp", "service", "invoke", "reason"]
ATTR = dict(type="apduType", seg="apduSeg", mor="apduMor", sa="apduSA", srv="apduSrv", nak="apduNak",
            seq="apduSeq", win="apduWin", maxsegs="apduMaxSegs", maxresp="apduMaxResp", service="apduService",
            invoke="apduInvokeID", reason="apduAbortRejectReason")

_lib = None


def lib():
    global _lib
    if _lib is None:
        from bacpypes import apdu as A
        from bacpypes.pdu import PDU
        from bacpypes.errors import DecodingError
        _lib = (A, PDU, DecodingError)
    return _lib


def header_space(t, seg_fixed=None):
    """yield field dicts: the full cross product for PDU type t"""
    bools = (False, True)
    if t == R.CONF:
        segs = bools if seg_fixed is None else (seg_fixed,)
        for seg, mor, sa, ms, mr, inv, svc in itertools.product(segs, bools, bools, range(8), range(16), B, B):
            if seg:
                for seq, win in itertools.product(B, B):
                    yield dict(type=t, seg=seg, mor=mor, sa=sa, maxsegs=ms, maxresp=mr, invoke=inv, seq=seq, win=win, service=svc)
            else:
                yield dict(type=t, seg=seg, mor=mor, sa=sa, maxsegs=ms, maxresp=mr, invoke=inv, service=svc)
    elif t == R.UNCONF:
        for svc in range(256):
            yield dict(type=t, service=svc)
    elif t in (R.SACK, R.ERROR):
        for inv, svc in itertools.product(range(256), B + (2, 29, 30, 64)):
            yield dict(type=t, invoke=inv, service=svc)
    elif t == R.CACK:
        for seg, mor, inv, svc in itertools.product(bools, bools, B, B):
            if seg:
                for seq, win in itertools.product(range(256), B):
                    yield dict(type=t, seg=seg, mor=mor, invoke=inv, seq=seq, win=win, service=svc)
            else:
                yield dict(type=t, seg=seg, mor=mor, invoke=inv, service=svc)
    elif t == R.SEGACK:
        for nak, srv, inv, seq, win in itertools.product(bools, bools, B, range(256), B):
            yield dict(type=t, nak=nak, srv=srv, invoke=inv, seq=seq, win=win)
    elif t == R.REJECT:
        for inv, reason in itertools.product(B, range(256)):
            yield dict(type=t, invoke=inv, reason=reason)
    elif t == R.ABORT:
        for srv, inv, reason in itertools.product(bools, B, range(256)):
            yield dict(type=t, srv=srv, invoke=inv, reason=reason)


def hdr_nontrivial(f):
    return bool(f.get("seg") or f.get("mor") or f.get("sa") or f.get("srv") or f.get("nak"))


CT = dict(choice="service", invokeID="invoke", nak="nak", srv="srv", sequenceNumber="seq", windowSize="win", reason="reason")
_ctor_cache = {}


def _ctor_params(klass):
    if klass not in _ctor_cache:
        import inspect
        _ctor_cache[klass] = [p_.name for p_ in list(inspect.signature(klass.__init__).parameters.values())[1:] if p_.kind == p_.POSITIONAL_OR_KEYWORD]
    return _ctor_cache[klass]


def check_header(f, data):
    """encode through the library, compare with the reference, decode back. -> list of (sig, msg)"""
    A, PDU, DecodingError = lib()
    name = R.NAMES[f["type"]]
    fails = []
    try:
        typed = A.apdu_types[f["type"]]()
        for k, v in f.items():
            setattr(typed, ATTR[k], v)
        typed.pduData = bytearray(data)
        generic = A.APDU()
        typed.encode(generic)
        pdu = PDU()
        generic.encode(pdu)
        octets = bytes(pdu.pduData)
    except Exception as err:
        return [("hdr:%s:encode-raised:%s" % (name, type(err).__name__), "encode of %r raised %r" % (f, err))]
    want = R.encode(dict(f, data=data))
    # the same PDU built through the typed class's constructor arguments, positionally and by keyword
    if octets == want:
        klass = A.apdu_types[f["type"]]
        names = _ctor_params(klass)
        for mode in ("positional", "keyword"):
            try:
                if mode == "positional":
                    # (only the leading run of mapped parameters can be given by position)
                    lead = []
                    for nm in names:
                        if nm in CT and CT[nm] in f:
                            lead.append(f[CT[nm]])
                        else:
                            break
                    typed2 = klass(*lead)
                    given = set(CT[nm] for nm in names[:len(lead)])
                else:
                    kw = dict((nm, f[CT[nm]]) for nm in names if nm in CT and CT[nm] in f)
                    typed2 = klass(**kw)
                    given = set(CT[nm] for nm in kw)
                for k, v in f.items():
                    if k not in given and k != "type":
                        setattr(typed2, ATTR[k], v)
                typed2.pduData = bytearray(data)
                g3 = A.APDU()
                typed2.encode(g3)
                p3 = PDU()
                g3.encode(p3)
                o3 = bytes(p3.pduData)
            except Exception as err:
                return [("hdr:%s:constructor-raised:%s" % (name, type(err).__name__), "%s construction of %r raised %r" % (mode, f, err))]
            if o3 != want:
                n = min(len(o3), len(want))
                pos = next((i for i in range(n) if o3[i] != want[i]), n)
                return [("hdr:%s:constructor-arguments-lost:octet%d" % (name, min(pos, 6)), "fields %r given as %s constructor arguments: library %s, clause 20.1 layout %s" % (f, mode, o3.hex(), want.hex()))]
    if octets != want:
        n = min(len(octets), len(want))
        pos = next((i for i in range(n) if octets[i] != want[i]), n)
        fails.append(("hdr:%s:encode-differs:octet%d" % (name, min(pos, 6)),
                      "fields %r: library %s, clause 20.1 layout %s" % (f, octets.hex(), want.hex())))
        return fails
    try:
        g2 = A.APDU()
        g2.decode(PDU(octets))
        t2 = A.apdu_types[g2.apduType]()
        t2.decode(g2)
    except Exception as err:
        return [("hdr:%s:decode-raised:%s" % (name, type(err).__name__), "decode of %s raised %r" % (octets.hex(), err))]
    for k, v in f.items():
        got = getattr(t2, ATTR[k])
        if got != v or (isinstance(v, bool) and not isinstance(got, (bool, int))):
            fails.append(("hdr:%s:field-not-restored:%s" % (name, k),
                          "fields %r -> %s -> %s=%r" % (f, octets.hex(), ATTR[k], got)))
    if bytes(t2.pduData) != bytes(data):
        fails.append(("hdr:%s:payload-altered" % name, "payload %s came back as %s" % (bytes(data).hex(), bytes(t2.pduData).hex())))
    return fails


def check_decode(b):
    """arbitrary octets: library and reference agree on accept/reject and on every field"""
    A, PDU, DecodingError = lib()
    try:
        want = R.decode(b)
    except R.Reject as rj:
        want = None
        why = str(rj)
    try:
        g = A.APDU()
        g.decode(PDU(bytes(b)))
    except DecodingError:
        if want is not None:
            return [("dec:refused-valid:%s" % R.NAMES[want["type"]], "%s is a complete %s header but was refused" % (bytes(b).hex(), R.NAMES[want["type"]]))]
        return []
    except Exception as err:
        return [("dec:other-exception:%s" % type(err).__name__, "decode of %s raised %r (neither header nor DecodingError)" % (bytes(b).hex(), err))]
    if want is None:
        return [("dec:accepted-invalid", "%s accepted although %s" % (bytes(b).hex(), why))]
    fails = []
    for k, v in want.items():
        if k == "data":
            if bytes(g.pduData) != v:
                fails.append(("dec:payload:%s" % R.NAMES[want["type"]], "%s: payload %s, expected %s" % (bytes(b).hex(), bytes(g.pduData).hex(), v.hex())))
            continue
        got = getattr(g, ATTR[k])
        if got != v:
            fails.append(("dec:field:%s:%s" % (R.NAMES[want["type"]], k), "%s: %s=%r, clause 20.1 says %r" % (bytes(b).hex(), ATTR[k], got, v)))
    return fails


def check_table(fn, x):
    A, PDU, DecodingError = lib()
    fails = []
    if fn == "dec_segs":
        got = A.decode_max_segments_accepted(x)
        want = R.MAX_SEGS[x]
        if want == ">64" or want is None:
            ok = got is None or (isinstance(got, int) and got > 64 and want == ">64")
        else:
            ok = got == want
        if not ok:
            fails.append(("tab:dec_segs", "decode_max_segments_accepted(%d) = %r, table says %r" % (x, got, want)))
    elif fn == "dec_apdu":
        try:
            got = A.decode_max_apdu_length_accepted(x)
        except ValueError:
            got = "refused"
        want = R.MAX_APDU.get(x, "refused")
        if got != want and not (want == "refused" and got is None):
            fails.append(("tab:dec_apdu", "decode_max_apdu_length_accepted(%d) = %r, table says %r" % (x, got, want)))
    elif fn == "enc_segs":
        try:
            got = A.encode_max_segments_accepted(x)
        except ValueError:
            got = "refused"
        want = R.max_segs_code(x)
        if want is None:
            ok = got == "refused"           # 1 segment has no code; refusing is the documented behaviour
        else:
            ok = got == want
        if not ok:
            fails.append(("tab:enc_segs:%s" % ("rounds-up" if isinstance(got, int) and isinstance(want, int) and got > want else "wrong"),
                          "encode_max_segments_accepted(%r) = %r, largest table entry <= arg has code %r" % (x, got, want)))
    elif fn == "enc_apdu":
        try:
            got = A.encode_max_apdu_length_accepted(x)
        except ValueError:
            got = "refused"
        want = R.max_apdu_code(x)
        if want is None:
            ok = got == "refused"
        else:
            ok = got == want
        if not ok:
            fails.append(("tab:enc_apdu:%s" % ("rounds-up" if isinstance(got, int) and isinstance(want, int) and got > want else "wrong"),
                          "encode_max_apdu_length_accepted(%r) = %r, largest table entry <= arg has code %r" % (x, got, want)))
    return fails


def dec_nontrivial(b):
    try:
        f = R.decode(b)
        return len(b) - len(f["data"]) >= 3
    except R.Reject:
        return len(b) >= 1 and (b[0] >> 4) < 8


def judge(case):
    k = case["k"]
    if k == "hdr":
        f = dict(case["f"])
        return Verdict(check_header(f, bytes.fromhex(case["data"])), hdr_nontrivial(f), ("hdr",))
    if k == "dec":
        b = bytes.fromhex(case["b"])
        return Verdict(check_decode(b), dec_nontrivial(b), ("dec",))
    if k == "tab":
        return Verdict(check_table(case["fn"], case["x"]), True, ("tab",))
    raise ValueError("unknown case kind %r" % (k,))


def payload(n):
    return bytes((i * 7 + 3) & 0xFF for i in range(n))


def plan(tier, seed):
    specs = []
    for seg in (False, True):
        specs.append(dict(name="hdr-conf-seg%d" % seg, kind="hdr", type=R.CONF, seg=seg))
    for t in range(1, 8):
        specs.append(dict(name="hdr-%s" % R.NAMES[t], kind="hdr", type=t))
    specs.append(dict(name="tables", kind="tab"))
    nshort = 3 if tier == "thorough" else 2
    if nshort == 3:
        for hi in range(16):
            specs.append(dict(name="strings3-%x" % hi, kind="strings", length=3, first_hi=hi))
    specs.append(dict(name="strings<=2", kind="strings", length=2))
    for i in range(4 if tier == "thorough" else 2):
        specs.append(dict(name="random-%d" % i, kind="random", n=60000 if tier == "thorough" else 8000))
    # once more with the library's debug tracing switched on
    st_ = 7 if tier == "thorough" else 61
    specs.append(dict(name="tracing-hdr-conf", kind="hdr", type=R.CONF, seg=True, tracing=True, stride=st_))
    specs.append(dict(name="tracing-hdr-cack", kind="hdr", type=3, tracing=True, stride=st_))
    specs.append(dict(name="tracing-tables", kind="tab", tracing=True))
    specs.append(dict(name="tracing-random", kind="random", n=20000 if tier == "thorough" else 3000, tracing=True))
    return specs


def seed_offset(ctx, stride):
    return ctx.seed % stride if stride > 1 else 0


def run(spec, ctx):
    kind = spec["kind"]
    if kind == "hdr":
        t = spec["type"]
        n = nt = 0
        sample = None
        from itertools import islice
        stride = spec.get("stride", 1)
        for f in islice(header_space(t, spec.get("seg")), seed_offset(ctx, stride), None, stride):
            for data in (b"", payload(1 + (f.get("invoke", 0) % 5))):
                fails = check_header(f, data)
                n += 1
                if hdr_nontrivial(f):
                    nt += 1
                    if sample is None and data:
                        sample = dict(k="hdr", f=f, data=data.hex())
                for sig, msg in fails:
                    ctx.fail(dict(k="hdr", f=f, data=data.hex()), sig, msg)
        ctx.bulk(n, nt, "hdr:" + R.NAMES[t], sample)
        if stride == 1:
            ctx.mark_exhaustive("header cross product of %s%s" % (R.NAMES[t], "" if spec.get("seg") is None else " seg=%d" % spec["seg"]))
    elif kind == "tab":
        n = nt = 0
        for x in range(8):
            for s, m in check_table("dec_segs", x):
                ctx.fail(dict(k="tab", fn="dec_segs", x=x), s, m)
            n += 1
        for x in range(16):
            for s, m in check_table("dec_apdu", x):
                ctx.fail(dict(k="tab", fn="dec_apdu", x=x), s, m)
            n += 1
        tabvals = set([2, 4, 8, 16, 32, 64, 50, 128, 206, 480, 1024, 1476])
        for x in list(range(0, 2001)) + [65535, 10 ** 6]:
            for fn in ("enc_segs", "enc_apdu"):
                for s, m in check_table(fn, x):
                    ctx.fail(dict(k="tab", fn=fn, x=x), s, m)
                n += 1
                if x not in tabvals:
                    nt += 1
        for s, m in check_table("enc_segs", None):
            ctx.fail(dict(k="tab", fn="enc_segs", x=None), s, m)
        ctx.bulk(n + 1, nt, "tab", dict(k="tab", fn="enc_apdu", x=1475))
        ctx.mark_exhaustive("table functions on all code points and capabilities 0..2000")
    elif kind == "strings":
        L = spec["length"]
        n = nt = 0
        if "first_hi" in spec:
            firsts = range(spec["first_hi"] * 16, spec["first_hi"] * 16 + 16)
            lengths = (L,)
        else:
            firsts = range(256)
            lengths = range(0, L + 1)
        for ln in lengths:
            if ln == 0:
                space = [b""] if "first_hi" not in spec else []
            else:
                space = (bytes((a,) + rest) for a in firsts for rest in itertools.product(range(256), repeat=ln - 1))
            for b in space:
                fails = check_decode(b)
                ctx.trail.append(b)
                n += 1
                if dec_nontrivial(b):
                    nt += 1
                for s, m in fails:
                    ctx.fail(dict(k="dec", b=b.hex()), s, m, trail_case=lambda x: dict(k="dec", b=x.hex()))
        ctx.bulk(n, nt, "dec:short", dict(k="dec", b="0b0501"))
        ctx.mark_exhaustive("all octet strings of length %s through the decoder" % ("== 3 (slice)" if "first_hi" in spec else "<= %d" % L))
    elif kind == "random":
        from hypothesis import strategies as st
        valid = st.builds(lambda t, bits, o1, rest, tail: R.encode(_mk(t, bits, o1, rest)) + tail,
                          st.integers(0, 7), st.integers(0, 15), st.integers(0, 255),
                          st.lists(st.integers(0, 255), min_size=6, max_size=6), st.binary(max_size=12))
        mutated = st.builds(_mutate, valid, st.integers(0, 3), st.integers(0, 40), st.integers(0, 255))
        strat = st.one_of(st.binary(max_size=32), mutated).map(lambda b: dict(k="dec", b=bytes(b).hex()))
        ctx.for_all(strat, spec["n"])


def _mk(t, bits, o1, rest):
    return dict(type=t, seg=bool(bits & 8), mor=bool(bits & 4), sa=bool(bits & 2), srv=bool(bits & 1), nak=bool(bits & 2),
                maxsegs=(o1 >> 4) & 7, maxresp=o1 & 15, invoke=rest[0], seq=rest[1], win=rest[2], service=rest[3],
                reason=rest[4], data=b"")


def _mutate(b, op, pos, val):
    b = bytearray(b)
    if not b:
        return bytes(b)
    pos %= len(b)
    if op == 0:
        b[pos] = val
    elif op == 1:
        b.insert(pos, val)
    elif op == 2:
        del b[pos]
    else:
        del b[pos:]
    return bytes(b)
