"""C15 -- property reads and writes over the wire are consistent, typed, all-or-nothing."""
import json
from ..runner import Verdict, watchdog, Stall
from .. import clock as VC
from .. import boot
from ..lab_stack import StackLab, lib as lablib
from .. import lab_device as LD
from ..gen import values as V
from ..ref import asn1 as R1, apci as RA, npci as RN

ID = "C15"
LEVEL = "exploration"
RULE = ("A real client stack and a real device (ReadProperty / WriteProperty / ReadPropertyMultiple services) on the virtual LAN; the "
        "device holds one instance of a registered object type (every registered standard type is visited), configured through "
        "the public API: a generated subset of its properties is initialised with generated values of their declared datatypes "
        "and a generated subset is re-declared writable with Object.add_property(Property(id, datatype, mutable=True)). Histories "
        "of: ReadProperty with all index classes (absent, 0, 1..n, n+1, large); valid WriteProperty by construction (mutable "
        "property, value of the declared datatype from the schema-driven generator, valid index or none, priority 1..16 or none); "
        "refused writes by construction (unknown object, unknown property, wrong datatype, read-only property, array index beyond "
        "the length); ReadPropertyMultiple with explicit references and the all / required / optional selectors incl. unknown "
        "objects and properties. Oracle = dict model of the object: acked write => later reads (whole and by element) return the "
        "written value (compared structurally and, for the value octets in the ack, with the reference encoder); refused write => "
        "the matching error and an unchanged full snapshot; arrays: index 0 -> length, 1..n -> element, else invalidArrayIndex, "
        "index on a non-array -> propertyIsNotAnArray; every RPM result element equals what ReadProperty returns (value or the "
        "same error class/code) and selectors expand to the set derived from the property descriptors. Non-trivial: history with "
        "an acked write followed by a read of it, or a refused write. Distinct by (object type, configuration, history)."
        " Also: per-(type, property) sweep; values with a second component; out-of-range values for Unsigned8/16 properties alone, by index and inside whole arrays; the device object through RPM vs RP by identifier and by wildcard instance."
        " Computed arrays of the device object whole vs by index."
        " The all / required / optional selectors on the device object contain everything its declared properties answer through ReadProperty. One reduced copy of a generated shard runs with the library's debug tracing switched on (label tracing-on).")
ASSUMPTIONS = [
    "objects with special write semantics (commandable mix-ins, device-object computed properties, writable name/identifier mix-ins, local schedule objects) are covered by C17/C20 or excluded",
    "array properties are held as ArrayOf instances and lists as Python lists, the types the library documents; array resizing through index 0 is not generated",
    "for a wrong datatype any of Error(property, invalidDataType), Reject(invalidParameterDatatype), Reject(invalidTag), Reject(missingRequiredParameter), Reject(tooManyArguments) is a matching refusal; Error(device, operationalProblem) is not",
]

SKIP_PROPS = set(["objectIdentifier", "objectName", "objectType", "propertyList"])
_types = None


def object_types():
    """name -> class for every registered standard object type (vendor 0)"""
    global _types
    if _types is None:
        from bacpypes.object import registered_object_types
        t = {}
        for (otype, vendor), cls in registered_object_types.items():
            if vendor == 0 and otype != "device" and isinstance(otype, str):
                t[otype] = cls
        _types = t
    return _types


def props_of(cls):
    """[(propid, datatype, optional)] of ordinary Property descriptors (no special subclasses)"""
    from bacpypes import object as O
    plain_classes = (O.Property, O.ReadableProperty, O.WritableProperty, O.OptionalProperty, O.StandardProperty) if hasattr(O, "StandardProperty") else (O.Property, O.ReadableProperty, O.WritableProperty, O.OptionalProperty)
    out = []
    for pid, prop in cls._properties.items():
        if pid in SKIP_PROPS or not isinstance(pid, str):
            continue
        if type(prop) not in plain_classes:
            continue
        out.append((pid, prop.datatype, prop.optional))
    return sorted(out, key=lambda t: t[0])


def is_array(dt):
    return V.is_arrayof(dt)


_gold = None


def golden_table():
    """the audited golden schema (C03) extended on demand with property datatypes it does not list"""
    global _gold
    if _gold is None:
        import os
        with open(os.path.join(boot.VERIF, "golden", "schema.json")) as f:
            _gold = json.load(f)["types"]
    return _gold


def error_of(apdu):
    """(kind, class/reason, code) of a refusal"""
    A = lablib().apdu
    if isinstance(apdu, A.Error):
        return ("error", str(apdu.errorClass), str(apdu.errorCode))
    if isinstance(apdu, A.ErrorPDU):
        return ("error", "?", "?")
    if isinstance(apdu, A.RejectPDU):
        return ("reject", apdu.apduAbortRejectReason, None)
    if isinstance(apdu, A.AbortPDU):
        return ("abort", apdu.apduAbortRejectReason, None)
    return None


WRONG_TYPE_OK = [("error", "property", "invalidDataType"), ("reject", 3, None), ("reject", 4, None), ("reject", 5, None), ("reject", 7, None)]


def run_history(otype, config, ops):
    L = lablib()
    A = L.apdu
    from bacpypes.object import Property
    cls = object_types()[otype]
    DeviceApp, ClientApp = LD.device_classes()
    lab = StackLab()
    boot.swallowed.take()
    dev = lab.add_stack(2, DeviceApp)
    cli = lab.add_stack(1, ClientApp)
    pmap = dict((pid, (dt, opt)) for pid, dt, opt in props_of(cls))
    try:
        obj = cls(objectIdentifier=(otype, 1), objectName="obj1")
    except Exception as err:
        return [("setup:%s:cannot-instantiate:%s" % (otype, type(err).__name__), repr(err))], {}
    model = {}
    writable = set()
    try:
        for pid, init, wr in config:
            dt, opt = pmap[pid]
            if wr:
                obj.add_property(Property(pid, dt, mutable=True))
                writable.add(pid)
        for pid, init, wr in config:
            dt, opt = pmap[pid]
            if init is not None:
                setattr(obj, pid, V.to_lib(dt, init))
                model[pid] = V.normalize(dt, init)
        dev.app.add_object(obj)
    except Exception as err:
        return [("setup:%s:%s" % (otype, type(err).__name__), "configuring %s with %s raised %r" % (otype, _s(config), err))], {}
    # values the class itself already holds (defaults) are part of the state too
    for pid, (dt, opt) in pmap.items():
        if pid not in model and obj._values.get(pid) is not None:
            try:
                model[pid] = V.normalize(dt, V.from_lib(dt, obj._values[pid]))
            except Exception:
                model[pid] = "?unreadable"
    oid = (otype, 1)
    stats = dict(write_then_read=0, refused=0)
    fails = []

    def call(req):
        req.pduDestination = L.Address(2)
        n0 = len(cli.app.got)
        cli.app.request(req)
        lab.settle()
        if len(cli.app.got) == n0:
            lab.run(lab.now + 10.0)
        return cli.app.got[-1][1] if len(cli.app.got) > n0 else None

    def snapshot():
        out = {}
        for pid, (dt, opt) in pmap.items():
            v = obj._values.get(pid)
            if v is None:
                continue
            try:
                out[pid] = V.normalize(dt, V.from_lib(dt, v))
            except Exception as err:
                out[pid] = "?unreadable:%s" % type(err).__name__
        return out

    def expected_read(pid, index):
        """('value', datatype, plain) | ('error', class, code)"""
        if pid not in cls._properties:
            return ("error", "property", "unknownProperty")
        if pid not in pmap:
            return None                         # special property: not judged
        dt, opt = pmap[pid]
        if index is not None and not is_array(dt):
            return ("error", "property", "propertyIsNotAnArray")
        if pid not in model:
            return ("error", "property", "unknownProperty")
        val = model[pid]
        if val == "?unreadable":
            return None
        if index is None:
            return ("value", dt, val)
        n = len(val["list"])
        if index == 0:
            return ("value", V.lib().P.Unsigned, n)
        if 1 <= index <= n:
            return ("value", dt.subtype, val["list"][index - 1])
        return ("error", "property", "invalidArrayIndex")

    def compare_read(what, exp, r_kind, r_payload, ctx):
        if exp is None:
            return
        if exp[0] == "error":
            if r_kind != "error" or (r_payload[1], r_payload[2]) != (exp[1], exp[2]):
                fails.append(("%s:expected-%s" % (what, exp[2]), "%s: expected Error(%s, %s), got %r" % (ctx, exp[1], exp[2], (r_kind, r_payload if r_kind == "error" else _s(r_payload)))))
            return
        if r_kind != "value":
            fails.append(("%s:expected-value:got-%s" % (what, r_payload[2] if r_payload and len(r_payload) > 2 else r_kind), "%s: expected a value, got %r" % (ctx, r_payload)))
            return
        dt, want = exp[1], exp[2]
        anyv = r_payload
        try:
            if dt is V.lib().P.Unsigned and not isinstance(want, dict):
                got = anyv.cast_out(V.lib().P.Unsigned)
            else:
                got = V.normalize(dt, V.from_lib(dt, anyv.cast_out(dt), want if isinstance(want, dict) else None))
        except Exception as err:
            fails.append(("%s:undecodable-value:%s" % (what, type(err).__name__), "%s: %r" % (ctx, err)))
            return
        if got != want:
            fails.append(("%s:value-differs" % what, "%s: read %s, model %s" % (ctx, _s(got), _s(want))))
            return
        # the octets of the value against the reference encoder
        try:
            tl = anyv.tagList
            from bacpypes.comm import PDUData
            p = PDUData()
            tl.encode(p)
            table = golden_table()
            tname = V.schema_of(dt, table)
            V.schema_of(V.lib().P.ObjectType, table)
            ref = V.ref_encode(tname, table, want)
            if bytes(p.pduData) != ref:
                fails.append(("%s:value-octets-differ" % what, "%s: octets %s, reference encoding %s" % (ctx, bytes(p.pduData)[:40].hex(), ref[:40].hex())))
        except (R1.Reject, KeyError, ValueError):
            pass

    def do_rp(pid, index):
        req = A.ReadPropertyRequest(objectIdentifier=oid, propertyIdentifier=pid)
        if index is not None:
            req.propertyArrayIndex = index
        r = call(req)
        if isinstance(r, A.ReadPropertyACK):
            return ("value", r.propertyValue)
        e = error_of(r)
        return (e[0], e) if e else ("none", None)

    for i, op in enumerate(ops):
        k = op[0]
        ctx = "%s %s step %d %s" % (otype, _s(config), i, _s(op))
        try:
            if k == "rp":
                kind, payload = do_rp(op[1], op[2])
                compare_read("rp", expected_read(op[1], op[2]), kind, payload, ctx)
            elif k == "wp":
                _, pid, plain, index, priority = op
                dt, opt = pmap[pid]
                vt = dt.subtype if index is not None else dt
                req = A.WritePropertyRequest(objectIdentifier=oid, propertyIdentifier=pid)
                lv = V.to_lib(vt, plain)
                if V.atomic_kind(vt) is not None:
                    lv = vt(lv)
                elif V.is_seqof(vt) or V.is_listof(vt):
                    lv = vt(lv)
                req.propertyValue = L.Any()
                req.propertyValue.cast_in(lv)
                if req.propertyValue.is_application_class_null():
                    continue                       # a bare Null means "relinquish", not a value of the datatype
                if pid not in model or model[pid] == "?unreadable":
                    continue                       # absent property: the library treats it as unknown (by design)
                if index is not None:
                    req.propertyArrayIndex = index
                if priority is not None:
                    req.priority = priority
                if index is not None and not (1 <= index <= len(model[pid]["list"])):
                    # the array has shrunk meanwhile: this is now a refused write
                    before = snapshot()
                    r = call(req)
                    e = error_of(r)
                    if e != ("error", "property", "invalidArrayIndex") or snapshot() != before:
                        fails.append(("wp-refused:bad-index:answered-%s" % (e,), "%s: answered %r" % (ctx, e or r)))
                    continue
                r = call(req)
                if not isinstance(r, A.SimpleAckPDU):
                    fails.append(("wp:valid-write-refused:%s" % (error_of(r),), "%s: answered %r" % (ctx, error_of(r) or r)))
                    break
                if index is None:
                    model[pid] = V.normalize(dt, plain)
                else:
                    model[pid]["list"][index - 1] = V.normalize(vt, plain)
                # read it back: whole, and by element for arrays
                stats["write_then_read"] += 1
                kind, payload = do_rp(pid, None)
                compare_read("read-after-write", expected_read(pid, None), kind, payload, ctx)
                if is_array(dt) and model[pid]["list"]:
                    j = index if index is not None else 1
                    kind, payload = do_rp(pid, j)
                    compare_read("read-after-write:element", expected_read(pid, j), kind, payload, ctx)
            elif k == "wp-bad":
                _, why, pid, plain, index = op
                if why == "bad-index" and (pid not in model or not isinstance(model[pid], dict) or 0 <= index <= len(model[pid]["list"])):
                    continue                       # the array has grown meanwhile: the index is valid now
                if why in ("wrong-type", "read-only", "extra-component", "out-of-range") and pid not in model:
                    continue
                if why == "extra-component" and index is not None and (not isinstance(model[pid], dict) or not (1 <= index <= len(model[pid]["list"]))):
                    continue
                before = snapshot()
                stats["refused"] += 1
                if why == "unknown-object":
                    req = A.WritePropertyRequest(objectIdentifier=(otype, 99), propertyIdentifier=pid)
                    want = [("error", "object", "unknownObject")]
                else:
                    req = A.WritePropertyRequest(objectIdentifier=oid, propertyIdentifier=pid)
                    want = {"unknown-property": [("error", "property", "unknownProperty")], "read-only": [("error", "property", "writeAccessDenied")],
                            "bad-index": [("error", "property", "invalidArrayIndex")], "wrong-type": WRONG_TYPE_OK, "extra-component": WRONG_TYPE_OK,
                            "out-of-range": WRONG_TYPE_OK + [("error", "property", "valueOutOfRange")]}[why]
                P = V.lib().P
                if why == "out-of-range":
                    # plain = [position or None, number of elements]: a value beyond the limit of a range-limited unsigned datatype,
                    # alone, as one element by index, or at some position of a whole array / list
                    dt0 = pmap[pid][0]
                    el = dt0
                    while V.is_arrayof(el) or V.is_listof(el) or V.is_seqof(el):
                        el = el.subtype
                    over = P.Unsigned(el._high_limit + 1)
                    if el is dt0 or index is not None:
                        lv = over
                    else:
                        pos, n_el = plain
                        items = [P.Unsigned(min(el._high_limit, max(el._low_limit, 1 + j))) for j in range(n_el)]
                        items[pos % n_el] = over
                        if getattr(dt0, "fixed_length", None) is not None:
                            items = (items * dt0.fixed_length)[:dt0.fixed_length]
                            items[pos % len(items)] = over
                        lv = (V.lib().C.ArrayOf if V.is_arrayof(dt0) else V.lib().C.ListOf if V.is_listof(dt0) else V.lib().C.SequenceOf)(P.Unsigned)(items)
                elif why == "wrong-type":
                    lv = plain_wrong(pmap[pid][0])
                    if lv is None:
                        stats["refused"] -= 1
                        continue                   # every application type can start a value of this datatype
                elif pid in pmap and plain is not None:
                    vt = pmap[pid][0].subtype if index is not None and is_array(pmap[pid][0]) else pmap[pid][0]
                    lv = V.to_lib(vt, plain)
                    if V.atomic_kind(vt) is not None:
                        lv = vt(lv)
                    elif V.is_seqof(vt) or V.is_listof(vt):
                        lv = vt(lv)
                else:
                    lv = P.Unsigned(1)
                req.propertyValue = L.Any()
                req.propertyValue.cast_in(lv)
                if why == "extra-component":
                    # a second value of the same kind behind the first: two values are not one value of an atomic datatype
                    extra = L.Any()
                    extra.cast_in(lv)
                    req.propertyValue.tagList.extend(extra.tagList)
                if index is not None:
                    req.propertyArrayIndex = index
                r = call(req)
                e = error_of(r)
                if e is None:
                    fails.append(("wp-refused:%s:accepted" % why, "%s: answered %r" % (ctx, r)))
                elif e not in want:
                    fails.append(("wp-refused:%s:answered-%s" % (why, e[2] if e[0] == "error" else "%s-%s" % (e[0], e[1])), "%s: expected one of %r, got %r" % (ctx, want, e)))
                after = snapshot()
                if after != before:
                    ch = [p for p in set(before) | set(after) if before.get(p) != after.get(p)]
                    fails.append(("wp-refused:%s:state-changed" % why, "%s: properties %r changed: %s -> %s" % (ctx, ch, _s(before.get(ch[0])), _s(after.get(ch[0])))))
            elif k == "dev":
                # the device object, by its own identifier or by the wildcard instance 4194303: ReadPropertyMultiple must say what ReadProperty says
                from bacpypes.apdu import ReadAccessSpecification
                from bacpypes.basetypes import PropertyReference
                refs, wild = op[1], op[2]
                target = ("device", 4194303) if wild else ("device", 2)
                stats["refused"] += 1

                def octs(anyv):
                    pd = L.PDUData() if hasattr(L, "PDUData") else None
                    from bacpypes.pdu import PDUData
                    pd = PDUData()
                    anyv.tagList.encode(pd)
                    return bytes(pd.pduData)
                singles = []
                for pid, index in refs:
                    rq = A.ReadPropertyRequest(objectIdentifier=target, propertyIdentifier=pid)
                    if index is not None:
                        rq.propertyArrayIndex = index
                    r1 = call(rq)
                    singles.append(("value", octs(r1.propertyValue)) if isinstance(r1, A.ReadPropertyACK) else ("error", error_of(r1)))
                prs = []
                for pid, index in refs:
                    pr = PropertyReference(propertyIdentifier=pid)
                    if index is not None:
                        pr.propertyArrayIndex = index
                    prs.append(pr)
                r = call(A.ReadPropertyMultipleRequest(listOfReadAccessSpecs=[ReadAccessSpecification(objectIdentifier=target, listOfPropertyReferences=prs)]))
                if not isinstance(r, A.ReadPropertyMultipleACK):
                    fails.append(("rpm-device:not-acked:%s" % (error_of(r),), "%s: answered %r" % (ctx, error_of(r) or r)))
                    break
                results = r.listOfReadAccessResults[0].listOfResults
                if len(results) != len(refs):
                    fails.append(("rpm-device:result-count", "%s: %d results for %d references" % (ctx, len(results), len(refs))))
                for (pid, index), el, one in zip(refs, results, singles):
                    if el.readResult.propertyAccessError is not None:
                        pe = el.readResult.propertyAccessError
                        got = ("error", ("error", str(pe.errorClass), str(pe.errorCode)))
                    else:
                        got = ("value", octs(el.readResult.propertyValue))
                    if got != one:
                        fails.append(("rpm-device:%s:differs-from-read-property:%s-for-%s" % ("wildcard" if wild else "own-id", got[0], one[0]),
                                      "%s: %s[%r] of %r: ReadPropertyMultiple says %r, ReadProperty says %r" % (ctx, pid, index, target, got, one)))
                        break
            elif k == "devsel":
                # the selectors on the device object: everything its property list names and ReadProperty can answer is in 'all', and says the same
                from bacpypes.apdu import ReadAccessSpecification
                from bacpypes.basetypes import PropertyReference
                from bacpypes.pdu import PDUData
                target = ("device", 4194303) if op[2] else ("device", 2)
                stats["refused"] += 1

                def octs2(anyv):
                    pd = PDUData()
                    anyv.tagList.encode(pd)
                    return bytes(pd.pduData)
                r = call(A.ReadPropertyMultipleRequest(listOfReadAccessSpecs=[ReadAccessSpecification(objectIdentifier=target, listOfPropertyReferences=[PropertyReference(propertyIdentifier=op[1])])]))
                if not isinstance(r, A.ReadPropertyMultipleACK):
                    fails.append(("rpm-device:selector-not-acked", "%s: %r" % (ctx, error_of(r) or r)))
                    break
                got_sel = {}
                for el in r.listOfReadAccessResults[0].listOfResults:
                    got_sel[str(el.propertyIdentifier)] = ("value", octs2(el.readResult.propertyValue)) if el.readResult.propertyAccessError is None else ("error", None)
                pl = call(A.ReadPropertyRequest(objectIdentifier=target, propertyIdentifier="propertyList"))
                names = [str(x) for x in pl.propertyValue.cast_out(V.lib().C.ArrayOf(V.lib().B.PropertyIdentifier))] if isinstance(pl, A.ReadPropertyACK) else []
                dev_obj = dev.app.localDevice
                for pn in sorted(set(names + ["objectName", "objectType", "objectIdentifier"] + [str(x) for x in dev_obj._properties])):
                    if pn == "propertyList":
                        continue
                    prop_ = dev_obj._properties.get(pn)
                    if prop_ is None:
                        continue
                    if (op[1] == "required" and prop_.optional) or (op[1] == "optional" and not prop_.optional):
                        continue
                    one = call(A.ReadPropertyRequest(objectIdentifier=target, propertyIdentifier=pn))
                    if isinstance(one, A.ReadPropertyACK):
                        if pn not in got_sel:
                            fails.append(("rpm-device:selector-%s:omits-readable-property" % op[1], "%s: ReadProperty answers %s but the '%s' selector leaves it out (returned: %r)" % (ctx, pn, op[1], sorted(got_sel))))
                            break
                        if got_sel[pn] != ("value", octs2(one.propertyValue)):
                            fails.append(("rpm-device:selector-%s:differs-from-read-property" % op[1], "%s: %s" % (ctx, pn)))
                            break
            elif k == "devarr":
                # computed arrays of the device object: index 0 is the length, index i the i-th element of the array read whole
                from bacpypes.pdu import PDUData
                from ..ref import asn1 as R1_
                target = ("device", 4194303) if op[2] else ("device", 2)
                stats["refused"] += 1

                def rp_(index):
                    rq = A.ReadPropertyRequest(objectIdentifier=target, propertyIdentifier=op[1])
                    if index is not None:
                        rq.propertyArrayIndex = index
                    r1 = call(rq)
                    if not isinstance(r1, A.ReadPropertyACK):
                        return ("error", error_of(r1))
                    pd = PDUData()
                    r1.propertyValue.tagList.encode(pd)
                    return ("value", bytes(pd.pduData))
                whole = rp_(None)
                if whole[0] == "value":
                    tags, _ = R1_.decode_tags(whole[1])
                    n0 = rp_(0)
                    if n0 != ("value", R1_.encode_primitive(R1_.UNSIGNED, len(tags), None)):
                        fails.append(("device-array:%s:length" % op[1], "%s: the array read whole has %d elements, index 0 says %r" % (ctx, len(tags), n0)))
                    for i_ in sorted(set([1, 2, 3, len(tags) // 2, len(tags) - 1, len(tags)])):
                        if 1 <= i_ <= len(tags):
                            el = rp_(i_)
                            if el != ("value", R1_.encode_tag(tags[i_ - 1])):
                                fails.append(("device-array:%s:element-differs-from-whole" % op[1], "%s: element %d read by index is %r, the array read whole has %s there"
                                              % (ctx, i_, el, R1_.encode_tag(tags[i_ - 1]).hex())))
                                break
                    beyond = rp_(len(tags) + 1)
                    if beyond != ("error", ("error", "property", "invalidArrayIndex")):
                        fails.append(("device-array:%s:beyond-the-end" % op[1], "%s: index %d of %d answered %r" % (ctx, len(tags) + 1, len(tags), beyond)))
            elif k == "rpm":
                refs = op[1]
                from bacpypes.apdu import ReadAccessSpecification
                from bacpypes.basetypes import PropertyReference
                target = (otype, 99) if op[2] else oid
                prs = []
                for pid, index in refs:
                    pr = PropertyReference(propertyIdentifier=pid)
                    if index is not None:
                        pr.propertyArrayIndex = index
                    prs.append(pr)
                r = call(A.ReadPropertyMultipleRequest(listOfReadAccessSpecs=[ReadAccessSpecification(objectIdentifier=target, listOfPropertyReferences=prs)]))
                if not isinstance(r, A.ReadPropertyMultipleACK):
                    fails.append(("rpm:not-acked:%s" % (error_of(r),), "%s: answered %r" % (ctx, error_of(r) or r)))
                    break
                results = r.listOfReadAccessResults[0].listOfResults
                sel = [pid for pid, index in refs if pid in ("all", "required", "optional")]
                if not sel:
                    if len(results) != len(refs):
                        fails.append(("rpm:result-count", "%s: %d results for %d references" % (ctx, len(results), len(refs))))
                    for (pid, index), el in zip(refs, results):
                        if str(el.propertyIdentifier) != pid or el.propertyArrayIndex != index:
                            fails.append(("rpm:result-misaligned", "%s: result for %r[%r] where %r[%r] was asked" % (ctx, el.propertyIdentifier, el.propertyArrayIndex, pid, index)))
                            continue
                        exp = ("error", "object", "unknownObject") if op[2] else expected_read(pid, index)
                        if el.readResult.propertyAccessError is not None:
                            pe = el.readResult.propertyAccessError
                            compare_read("rpm", exp, "error", ("error", str(pe.errorClass), str(pe.errorCode)), ctx)
                        else:
                            compare_read("rpm", exp, "value", el.readResult.propertyValue, ctx)
                elif not op[2]:
                    which = sel[0]
                    want_ids = set()
                    for pid2, prop in obj._properties.items():
                        if pid2 == "propertyList":
                            continue
                        if which == "required" and prop.optional:
                            continue
                        if which == "optional" and not prop.optional:
                            continue
                        if obj._values.get(pid2) is None and pid2 in pmap:
                            continue
                        if pid2 not in pmap:
                            want_ids.add(("?", pid2))
                        else:
                            want_ids.add(("=", pid2))
                    got_ids = set(str(el.propertyIdentifier) for el in results)
                    must = set(p for f, p in want_ids if f == "=")
                    may = set(p for f, p in want_ids)
                    if not (must <= got_ids <= may):
                        fails.append(("rpm:selector-%s:%s" % (which, "missing" if must - got_ids else "extra"), "%s: selector %s returned %r, expected %r (optionally also %r)"
                                      % (ctx, which, sorted(got_ids), sorted(must), sorted(may - must))))
                    for el in results:
                        pid2 = str(el.propertyIdentifier)
                        if pid2 in pmap and el.readResult.propertyAccessError is None:
                            compare_read("rpm-selector", expected_read(pid2, None), "value", el.readResult.propertyValue, ctx)
        except Exception as err:
            import traceback
            fails.append(("step-raised:%s:%s" % (k, type(err).__name__), "%s raised %r %s" % (ctx, err, traceback.format_exc()[-400:])))
        if fails:
            break
    sw = [r for r in boot.swallowed.take() if r[0]]
    if fails and sw:
        fails = [(fails[0][0] + ":%s@%s" % (sw[0][0], sw[0][1]), fails[0][1] + " swallowed %r" % (sw[:1],))] + fails[1:]
    return fails[:2], stats


def first_kinds(dt, seen=None):
    """application-tagged primitive kinds an encoding of dt can start with; None = anything (Any)"""
    L = V.lib()
    C = L.C
    seen = seen or set()
    while V.is_arrayof(dt) or V.is_listof(dt) or V.is_seqof(dt):
        dt = dt.subtype               # a single element is a legitimate one-element list
    if dt in seen:
        return set()
    seen = seen | set([dt])
    if issubclass(dt, C.AnyAtomic) or issubclass(dt, C.Any):
        return None
    k = V.atomic_kind(dt)
    if k is not None:
        return set([k])
    out = set()
    if issubclass(dt, C.Choice):
        for e in dt.choiceElements:
            if e.context is None:
                f = first_kinds(e.klass, seen)
                if f is None:
                    return None
                out |= f
        return out
    if issubclass(dt, C.Sequence):
        for e in dt.sequenceElements:
            if e.context is None:
                f = first_kinds(e.klass, seen)
                if f is None:
                    return None
                out |= f
            if not e.optional:
                break
        return out
    return None


def plain_wrong(dt):
    """a library value whose application type cannot be (the start of) the declared datatype, or None if there is none"""
    P = V.lib().P
    f = first_kinds(dt)
    if f is None:
        return None
    cands = [("CharacterString", lambda: P.CharacterString("wrong")), ("Real", lambda: P.Real(1.5)),
             ("Time", lambda: P.Time((1, 2, 3, 4))), ("OctetString", lambda: P.OctetString(b"\x01\x02"))]
    if f & set(["CharacterString", "OctetString", "BitString", "Date", "Time", "ObjectIdentifier", "Boolean", "Null"]):
        cands = [cands[1], cands[0]] + cands[2:]      # Real first against the non-numeric kinds
    for kind, make in cands:
        if kind in f or (kind == "Real" and "Double" in f):
            continue
        return make()
    return None


def _s(v):
    s = json.dumps(v, sort_keys=True, default=repr) if not isinstance(v, str) else v
    return s if len(s) < 300 else s[:300] + "..."


def judge(case):
    try:
        with watchdog(90):
            fails, stats = run_history(case["otype"], case["config"], case["ops"])
    except Stall:
        return Verdict([("stall", "no return within 90 s")], True, ("stall",))
    nt = stats.get("write_then_read", 0) > 0 or stats.get("refused", 0) > 0
    return Verdict(fails, nt, ("hist",))


# ---- generation ----------------------------------------------------------------------------------------------------------------

def plan(tier, seed):
    names = sorted(object_types())
    nsh = 32
    return [dict(name="types-%d" % i, kind="types", types=names[i::nsh], n=200 if tier == "quick" else 2500) for i in range(nsh)] + \
           [dict(name="sweep-%d" % i, kind="sweep", types=names[i::nsh], n=6 if tier == "quick" else 60) for i in range(nsh)] + \
           [dict(name="tracing-%d" % i, kind="types", types=names[i::4], n=12 if tier == "quick" else 150, tracing=True) for i in range(4)]   # once more with debug tracing on


def history_strategy(otype, focus=None):
    """focus = a property identifier: it is always configured present and writable, and the history begins by writing and reading it"""
    from hypothesis import strategies as st
    cls = object_types()[otype]
    plist = props_of(cls)
    if not plist:
        return None
    unknown_pids = [p for p in ("presentValue", "units", "alarmValue", "stateText", "logBuffer", "maxPresValue", "setpoint", "zoneMembers") if p not in cls._properties][:3]

    def config_s():
        def one(t):
            pid, dt, opt = t
            return st.tuples(st.just(pid), st.one_of(st.none(), V.strategy(dt, 2)), st.booleans()).map(list)
        if focus is not None:
            ft = [t for t in plist if t[0] == focus][0]
            first = st.tuples(st.just(focus), V.strategy(ft[1], 2), st.just(True)).map(list)
            rest = st.lists(st.sampled_from(plist), min_size=0, max_size=2, unique_by=lambda t: t[0]).map(lambda ps: [t for t in ps if t[0] != focus])
            return rest.flatmap(lambda ps: st.tuples(first, *[one(t) for t in ps]).map(list))
        return st.lists(st.sampled_from(plist), min_size=1, max_size=6, unique_by=lambda t: t[0]).flatmap(lambda ps: st.tuples(*[one(t) for t in ps]).map(list))

    def ops_s(config):
        cfg = dict((c[0], c) for c in config)
        dts = dict((pid, dt) for pid, dt, opt in plist)
        pids = list(cfg)
        wr = [p for p in pids if cfg[p][2] and cfg[p][1] is not None]
        ro = [p for p in pids if not cfg[p][2] and cfg[p][1] is not None and not cls._properties[p].mutable]
        arrays = [p for p in pids if is_array(dts[p]) and cfg[p][1] is not None]
        index = st.one_of(st.none(), st.none(), st.sampled_from([0, 1, 2, 3, 4, 5, 200]))
        alts = [st.tuples(st.just("rp"), st.sampled_from(pids + unknown_pids[:1]), index).map(list)]
        if wr:
            def wp(pid):
                dt = dts[pid]
                return st.tuples(st.just("wp"), st.just(pid), V.strategy(dt, 2), st.none(), st.one_of(st.none(), st.integers(1, 16))).map(list)
            alts.append(st.sampled_from(wr).flatmap(wp))
            alts.append(st.sampled_from(wr).flatmap(wp))
            alts.append(st.sampled_from(wr).map(lambda pid: ["wp-bad", "wrong-type", pid, None, None]))
            alts.append(st.sampled_from(wr).flatmap(lambda pid: V.strategy(dts[pid], 1).map(lambda v, pid=pid: ["wp-bad", "unknown-object", pid, v, None])))
        def limited(dt_):
            while V.is_arrayof(dt_) or V.is_listof(dt_) or V.is_seqof(dt_):
                dt_ = dt_.subtype
            return V.atomic_kind(dt_) == "Unsigned" and getattr(dt_, "_high_limit", None) is not None
        wlim = [p for p in wr if limited(dts[p])]
        if wlim:
            def oor(pid):
                dt_ = dts[pid]
                if V.atomic_kind(dt_) is not None:
                    return st.just(["wp-bad", "out-of-range", pid, None, None])
                whole = st.tuples(st.integers(0, 3), st.integers(1, 4)).map(lambda t, pid=pid: ["wp-bad", "out-of-range", pid, list(t), None])
                if is_array(dt_) and cfg[pid][1]["list"]:
                    return st.one_of(whole, whole, st.just(["wp-bad", "out-of-range", pid, None, 1]))
                return whole
            alts.append(st.sampled_from(wlim).flatmap(oor))
            alts.append(st.sampled_from(wlim).flatmap(oor))
        watom = [p for p in wr if V.atomic_kind(dts[p]) is not None]
        if watom:
            alts.append(st.sampled_from(watom).flatmap(lambda pid: V.strategy(dts[pid], 1).map(lambda v, pid=pid: ["wp-bad", "extra-component", pid, v, None])))
        warr = [p for p in wr if p in arrays and cfg[p][1]["list"]]
        wea = [p for p in warr if V.atomic_kind(dts[p].subtype) is not None]
        if wea:
            alts.append(st.sampled_from(wea).flatmap(lambda pid: V.strategy(dts[pid].subtype, 1).map(lambda v, pid=pid: ["wp-bad", "extra-component", pid, v, 1])))
        if warr:
            def wpe(pid):
                n = len(cfg[pid][1]["list"])
                dt = dts[pid]
                if getattr(dt, "fixed_length", None) is None and False:
                    pass
                return st.tuples(st.just("wp"), st.just(pid), V.strategy(dt.subtype, 2), st.integers(1, n), st.none()).map(list)
            alts.append(st.sampled_from(warr).flatmap(wpe))
            alts.append(st.sampled_from(warr).flatmap(lambda pid: V.strategy(dts[pid].subtype, 1).map(
                lambda v, pid=pid: ["wp-bad", "bad-index", pid, v, len(cfg[pid][1]["list"]) + 1 + (len(json.dumps(v)) % 3) * 50])))
        if ro:
            alts.append(st.sampled_from(ro).flatmap(lambda pid: V.strategy(dts[pid], 1).map(lambda v, pid=pid: ["wp-bad", "read-only", pid, v, None])))
        if unknown_pids:
            alts.append(st.sampled_from(unknown_pids).map(lambda pid: ["wp-bad", "unknown-property", pid, None, None]))
        dref = st.sampled_from([["objectName", None], ["objectIdentifier", None], ["objectList", 0], ["objectList", 1], ["objectList", None], ["vendorIdentifier", None],
                                ["maxApduLengthAccepted", None], ["systemStatus", None], ["objectList", 200], ["presentValue", None], ["objectName", 1], ["protocolServicesSupported", None]])
        alts.append(st.tuples(st.just("dev"), st.lists(dref, min_size=1, max_size=4), st.booleans()).map(list))
        alts.append(st.tuples(st.just("devarr"), st.sampled_from(["objectList", "propertyList", "objectList"]), st.booleans()).map(list))
        alts.append(st.tuples(st.just("devsel"), st.sampled_from(["all", "required", "optional"]), st.booleans()).map(list))
        ref = st.tuples(st.sampled_from(pids + unknown_pids[:1]), index).map(list)
        alts.append(st.tuples(st.just("rpm"), st.lists(ref, min_size=1, max_size=4), st.sampled_from([False, False, False, True])).map(list))
        alts.append(st.tuples(st.just("rpm"), st.sampled_from([[["all", None]], [["required", None]], [["optional", None]]]), st.sampled_from([False, False, True])).map(list))
        if focus is not None and focus in wr:
            dt = dts[focus]
            head = [st.tuples(st.just("wp"), st.just(focus), V.strategy(dt, 2), st.none(), st.none()).map(list),
                    st.tuples(st.just("rp"), st.just(focus), st.sampled_from([None, 1, 0, 2])).map(list),
                    st.tuples(st.just("rpm"), st.sampled_from([[[focus, None]], [[focus, 1]], [[focus, None], [focus, 0]]]), st.just(False)).map(list)]
            return st.tuples(st.tuples(*head).map(list), st.lists(st.one_of(*alts), min_size=0, max_size=5)).map(lambda t: t[0] + t[1])
        return st.lists(st.one_of(*alts), min_size=1, max_size=10)
    return config_s().flatmap(lambda cfg: ops_s(cfg).map(lambda ops, cfg=cfg: dict(k="h", otype=otype, config=cfg, ops=ops)))


def run(spec, ctx):
    if spec["kind"] == "sweep":
        # every (object type, property) pair in turn: configured writable, written, read whole / by element / through RPM
        for otype in spec["types"]:
            for pid, dt, opt in props_of(object_types()[otype]):
                s = history_strategy(otype, focus=pid)
                if s is not None:
                    ctx.for_all(s, spec["n"], salt=sum(map(ord, otype + pid)))
        return
    for otype in spec["types"]:
        s = history_strategy(otype)
        if s is None:
            continue
        ctx.for_all(s, spec["n"], salt=sum(map(ord, otype)))
