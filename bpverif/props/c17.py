"""C17 -- a commandable value equals its highest-priority command or the default."""
import itertools
from ..runner import Verdict, watchdog, Stall
from .. import clock as VC
from .. import boot
from ..lab_stack import StackLab, lib as lablib
from .. import lab_device as LD

ID = "C17"
LEVEL = "exploration"
RULE = ("The 20 commandable classes of local/object.py (registered with vendor 999, as samples/CommandableMixin.py does), each with "
        "three values of its own datatype INCLUDING the datatype's zero/empty value. Command histories over {write at priority p, "
        "relinquish p, write without priority, refused commands (priority 0, 17, 255, -1; slot 0)}: ALL sequences up to length 4 "
        "(quick) / 5 (thorough) over priorities {1,6,8,16} x 3 values on a representative class per datatype and length <= 3 on "
        "every class, Hypothesis sequences of length <= 100 over all 16 priorities on every class; applied (i) directly through "
        "obj.WriteProperty and (ii) as WriteProperty requests from a real client stack over the virtual LAN, reading presentValue "
        "and priorityArray (whole and by element) back both ways after every step. Binary output/value with minimum on/off times "
        "0..10 s: timelines of commands and time advances. Oracle = 16-slot priority model: present value = lowest-numbered "
        "non-null slot else relinquish default; each slot = last value commanded there; refused commands answer with an error and "
        "change nothing; a change of present value to active/inactive is held in slot 6 for minimumOnTime/minimumOffTime seconds "
        "and released afterwards. Non-trivial: history with >= 2 occupied slots at some point, or a relinquish of an occupied "
        "slot, or a refused command. Distinct by (class, mode, history)."
        " Also: the relinquish default changed by the local application before / between / after commands."
        " Commands carrying a value outside the enumeration (over the wire); other watchers of the present value bound and unbound during minimum on/off holds."
        " Relinquish without a priority field (counts as 16), directly and over the wire. One reduced copy of a generated shard runs with the library's debug tracing switched on (label tracing-on).")
ASSUMPTIONS = [
    "DateTime commandables are created with an explicit relinquishDefault / presentValue (a constructed datatype has no encodable default value)",
    "the ...CmdObject classes behave as commandable only after register_object_type(cls, vendor_id=...); the harness registers them",
    "values are of the object's own datatype (wrong-typed commands belong to C15)",
    "in minimum on/off timelines the user does not command priority 6 itself (that slot belongs to the mechanism)",
]

_lib = None


class _L(object):
    pass


VALUES = {
    "Real": [0.0, 1.5, -20.25], "Double": [0.0, 1e10, -3.5], "Integer": [0, -5, 7], "Unsigned": [0, 1, 3],
    "BinaryPV": ["inactive", "active", "active"], "DoorValue": ["lock", "unlock", "pulseUnlock"],
    "BitString": [[], [1, 0], [0, 1, 1]], "CharacterString": ["", "a", "hello"], "OctetString": [b"", b"\x01", b"ab"],
    "Date": [(0, 1, 1, 1), (124, 2, 29, 4), (255, 255, 255, 255)], "Time": [(0, 0, 0, 0), (12, 30, 0, 0), (255, 255, 255, 255)],
    "DateTime": [("dt", (0, 1, 1, 1), (0, 0, 0, 0)), ("dt", (124, 2, 29, 4), (12, 30, 0, 0)), ("dt", (255, 255, 255, 255), (255, 255, 255, 255))],
}


def lib():
    global _lib
    if _lib is None:
        L = _L()
        LL = lablib()
        from bacpypes.local import object as LO
        from bacpypes.object import register_object_type
        from bacpypes import primitivedata as P, basetypes as B
        L.LL, L.LO, L.P, L.B = LL, LO, P, B
        names = [n for n in dir(LO) if n.endswith("CmdObject")]
        L.classes = {}
        for n in sorted(names):
            base = getattr(LO, n)
            # a local subclass registered under a vendor id builds the merged property table
            cls = type("V" + n, (base,), {})
            try:
                register_object_type(cls, vendor_id=999)
            except Exception as err:
                L.classes[n] = (None, None, "register: %r" % (err,))
                continue
            # datatype of presentValue
            dt = None
            for p in cls._properties.values() if hasattr(cls, "_properties") else []:
                pass
            L.classes[n] = (cls, None, None)
        L.datatype = {}
        for n, (cls, _, err) in L.classes.items():
            if cls is None:
                continue
            try:
                L.datatype[n] = cls._properties["presentValue"].datatype
            except Exception:
                L.datatype[n] = None
        _lib = L
    return _lib


def class_names():
    return sorted(lib().classes)


def values_for(name):
    L = lib()
    dt = L.datatype.get(name)
    if dt is None:
        return None
    for k in ("BinaryPV", "DoorValue", "DateTime"):
        if dt.__name__ == k:
            return VALUES[k]
    for base in ("Real", "Double", "Integer", "Unsigned", "BitString", "CharacterString", "OctetString", "Date", "Time"):
        if issubclass(dt, getattr(L.P, base)):
            return VALUES[base]
    return None


def make_object(name, inst=1):
    L = lib()
    cls = L.classes[name][0]
    kw = dict(objectIdentifier=(cls.objectType, inst), objectName="o%d" % inst)
    if "MultiState" in name:
        kw["numberOfStates"] = 5
    if name.startswith("DateTime"):
        # a constructed datatype has no encodable default of its own: the user supplies the relinquish default
        dt = L.datatype[name]
        kw["relinquishDefault"] = dt(date=(100, 6, 15, 4), time=(8, 0, 0, 0))
        kw["presentValue"] = dt(date=(100, 6, 15, 4), time=(8, 0, 0, 0))
    return cls(**kw)


def to_lib(dt, v):
    """model value -> what the library is given"""
    if isinstance(v, tuple) and v and v[0] == "dt":
        return dt(date=v[1], time=v[2])
    return v


def norm(v):
    if v.__class__.__name__ == "DateTime":
        return ("dt", tuple(v.date) if v.date is not None else None, tuple(v.time) if v.time is not None else None)
    if isinstance(v, list):
        return list(v)
    if isinstance(v, (bytes, bytearray)):
        return bytes(v)
    if isinstance(v, tuple):
        return tuple(v)
    return v


def slot_value(obj, i, dt):
    """what slot i holds, read directly: None for null"""
    L = lib()
    pv = obj.priorityArray[i]
    if pv.null is not None or all(getattr(pv, e.name, None) is None for e in type(pv).choiceElements if e.name != "null"):
        if pv.null is not None:
            return None
    for e in type(pv).choiceElements:
        if e.name == "null":
            continue
        v = getattr(pv, e.name, None)
        if v is not None:
            if e.name == "enumerated" and issubclass(dt, L.P.Enumerated):
                v = dt._xlate_table.get(v, v)
            return norm(v)
    return None


class Model(object):
    def __init__(self, default):
        self.slots = [None] * 17
        self.default = default

    def pv(self):
        for i in range(1, 17):
            if self.slots[i] is not None:
                return self.slots[i][0]
        return self.default

    def snapshot(self):
        return (self.pv(), [s[0] if s is not None else None for s in self.slots[1:]])


def direct_snapshot(obj, dt):
    return (norm(obj.presentValue), [slot_value(obj, i, dt) for i in range(1, 17)])


def json_val(v):
    if isinstance(v, (bytes, bytearray)):
        return {"hex": bytes(v).hex()}
    if isinstance(v, tuple):
        return {"tuple": list(v)}
    return v


def un_json(v):
    if isinstance(v, dict) and "hex" in v:
        return bytes.fromhex(v["hex"])
    if isinstance(v, dict) and "tuple" in v:
        return tuple(v["tuple"])
    return v


# ---- direct histories ------------------------------------------------------------------------------------------------------

def run_direct(name, ops):
    """ops: ["w", p|None, vi] write value index vi at priority p; ["r", p] relinquish; ["bad", p, vi] refused priority;
       ["slot0", vi] write to priorityArray[0]"""
    L = lib()
    from bacpypes.errors import ExecutionError
    if L.classes[name][0] is None:
        return [("cmd:%s:cannot-register" % name, L.classes[name][2])]
    vals = values_for(name)
    if vals is None:
        # DateTime... classes: constructing them is the first thing a user does
        try:
            make_object(name)
        except Exception as err:
            return [("cmd:%s:cannot-instantiate:%s" % (name, type(err).__name__), "%s() raised %r" % (name, err))]
        return []
    dt = L.datatype[name]
    try:
        obj = make_object(name)
    except Exception as err:
        return [("cmd:%s:cannot-instantiate:%s" % (name, type(err).__name__), "%s() raised %r" % (name, err))]
    m = Model(norm(obj.relinquishDefault))
    kind = dt.__name__
    pv_open = False
    for i, op in enumerate(ops):
        before = direct_snapshot(obj, dt)
        try:
            if op[0] == "w":
                obj.WriteProperty("presentValue", to_lib(dt, vals[op[2]]), priority=op[1])
                m.slots[op[1] if op[1] is not None else 16] = (norm(vals[op[2]]),)
            elif op[0] == "r":
                obj.WriteProperty("presentValue", (), priority=op[1])
                m.slots[op[1] if op[1] is not None else 16] = None
            elif op[0] == "bad":
                try:
                    obj.WriteProperty("presentValue", to_lib(dt, vals[op[2]]) if op[2] is not None else (), priority=op[1])
                    return [("cmd:%s:direct:refusal-missing" % kind, "%s: write at priority %r accepted (history %r)" % (name, op[1], ops[:i + 1]))]
                except ExecutionError:
                    pass
            elif op[0] == "slot0":
                try:
                    obj.WriteProperty("priorityArray", to_lib(dt, vals[op[1]]), arrayIndex=0)
                    return [("cmd:%s:direct:slot0-accepted" % kind, "%s: write to priorityArray[0] accepted" % name)]
                except ExecutionError:
                    pass
            elif op[0] == "rd":
                # the local application gives the object another relinquish default (it takes effect when the value is next derived)
                obj.WriteProperty("relinquishDefault", to_lib(dt, vals[op[1]]), direct=True)
                m.default = norm(vals[op[1]])
                if all(x is None for x in m.slots[1:]):
                    pv_open = True
        except Exception as err:
            return [("cmd:%s:direct:raised:%s" % (kind, type(err).__name__), "%s history %r: step %r raised %r" % (name, ops[:i + 1], op, err))]
        if op[0] in ("w", "r"):
            pv_open = False
        got = direct_snapshot(obj, dt)
        want = m.snapshot()
        if pv_open:
            want = (got[0], want[1])
        if op[0] in ("bad", "slot0") and got != before:
            return [("cmd:%s:direct:refused-command-changed-state" % kind, "%s history %r: %r -> %r" % (name, ops[:i + 1], before, got))]
        if got[0] != want[0]:
            return [("cmd:%s:direct:present-value" % kind, "%s history %r: presentValue %r, model %r (slots %r)" % (name, ops[:i + 1], got[0], want[0], want[1]))]
        if got[1] != want[1]:
            bad = [j + 1 for j in range(16) if got[1][j] != want[1][j]]
            return [("cmd:%s:direct:slot" % kind, "%s history %r: slot %d holds %r, model %r" % (name, ops[:i + 1], bad[0], got[1][bad[0] - 1], want[1][bad[0] - 1]))]
    return []


# ---- over the wire ------------------------------------------------------------------------------------------------------------

def run_wire(name, ops):
    L = lib()
    LL = L.LL
    A = LL.apdu
    vals = values_for(name)
    if vals is None or L.classes[name][0] is None:
        return []
    dt = L.datatype[name]
    kind = dt.__name__
    DeviceApp, ClientApp = LD.device_classes()
    lab = StackLab()
    boot.swallowed.take()
    dev = lab.add_stack(2, DeviceApp)
    cli = lab.add_stack(1, ClientApp)
    obj = make_object(name)
    dev.app.add_object(obj)
    oid = obj.objectIdentifier
    m = Model(norm(obj.relinquishDefault))

    def call(req):
        req.pduDestination = LL.Address(2)
        n0 = len(cli.app.got)
        cli.app.request(req)
        lab.settle()
        if len(cli.app.got) != n0 + 1:
            lab.run(lab.now + 30.0)
        if len(cli.app.got) != n0 + 1:
            return None
        return cli.app.got[-1][1]

    def wp(value, priority):
        req = A.WritePropertyRequest(objectIdentifier=oid, propertyIdentifier="presentValue")
        if value == ():
            req.propertyValue = LL.Any(L.P.Null())
        elif isinstance(value, tuple) and value and value[0] == "dt":
            req.propertyValue = LL.Any(to_lib(dt, value))
        else:
            req.propertyValue = LL.Any(dt(value))
        if priority is not None:
            req.priority = priority
        return call(req)

    def rp(prop, index=None):
        req = A.ReadPropertyRequest(objectIdentifier=oid, propertyIdentifier=prop)
        if index is not None:
            req.propertyArrayIndex = index
        return call(req)

    def pv_of(choice):
        if choice.null is not None:
            return None
        for e in type(choice).choiceElements:
            if e.name == "null":
                continue
            v = getattr(choice, e.name, None)
            if v is not None:
                if e.name == "enumerated" and issubclass(dt, L.P.Enumerated):
                    v = dt._xlate_table.get(v, v)
                return norm(v)
        return None

    def wire_snapshot():
        r = rp("presentValue")
        if not isinstance(r, A.ReadPropertyACK):
            return ("read-failed", repr(r))
        pv = norm(r.propertyValue.cast_out(dt))
        r = rp("priorityArray")
        if not isinstance(r, A.ReadPropertyACK):
            return ("read-failed", repr(r))
        arr = r.propertyValue.cast_out(L.B.PriorityArray)
        slots = [pv_of(arr[i]) for i in range(1, 17)]
        return (pv, slots)

    for i, op in enumerate(ops):
        try:
            if op[0] == "w":
                r = wp(vals[op[2]], op[1])
                if not isinstance(r, A.SimpleAckPDU):
                    return [("cmd:%s:wire:write-not-acked" % kind, "%s history %r: WriteProperty answered %r" % (name, ops[:i + 1], r))]
                m.slots[op[1] if op[1] is not None else 16] = (norm(vals[op[2]]),)
            elif op[0] == "r":
                r = wp((), op[1])         # (priority None: a Null without a priority field relinquishes the default priority, 16)
                if not isinstance(r, A.SimpleAckPDU):
                    return [("cmd:%s:wire:relinquish-not-acked" % kind, "%s history %r: answered %r" % (name, ops[:i + 1], r))]
                m.slots[op[1] if op[1] is not None else 16] = None
            elif op[0] == "bad":
                if op[1] < 0:
                    continue
                before = direct_snapshot(obj, dt)
                r = wp(vals[op[2]] if op[2] is not None else (), op[1])
                if isinstance(r, A.SimpleAckPDU) or r is None:
                    return [("cmd:%s:wire:refusal-missing" % kind, "%s: WriteProperty with priority %r answered %r" % (name, op[1], r))]
                if direct_snapshot(obj, dt) != before:
                    return [("cmd:%s:wire:refused-command-changed-state" % kind, "%s history %r" % (name, ops[:i + 1]))]
            elif op[0] == "badval":
                # a command whose value the datatype cannot hold (an enumeration number outside the enumeration): whatever the answer,
                # a refusal leaves the priority array as it was - checked right below by reading everything back
                if not issubclass(dt, L.P.Enumerated) or max(dt.enumerations.values()) > 200:
                    continue
                req = A.WritePropertyRequest(objectIdentifier=oid, propertyIdentifier="presentValue", priority=op[1])
                req.propertyValue = LL.Any(L.P.Enumerated(max(dt.enumerations.values()) + 1 + op[2]))
                r = call(req)
                if isinstance(r, A.SimpleAckPDU):
                    return [("cmd:%s:wire:out-of-range-value-accepted" % kind, "%s history %r: enumeration number %d acknowledged" % (name, ops[:i + 1], max(dt.enumerations.values()) + 1 + op[2]))]
            elif op[0] == "slot0":
                continue
        except Exception as err:
            return [("cmd:%s:wire:raised:%s" % (kind, type(err).__name__), "%s history %r: step %r raised %r" % (name, ops[:i + 1], op, err))]
        try:
            got = wire_snapshot()
        except Exception as err:
            return [("cmd:%s:wire:readback-raised:%s" % (kind, type(err).__name__), "%s history %r: %r" % (name, ops[:i + 1], err))]
        want = m.snapshot()
        if got[0] == "read-failed":
            return [("cmd:%s:wire:read-failed" % kind, "%s history %r: %r" % (name, ops[:i + 1], got[1]))]
        if got[0] != want[0]:
            return [("cmd:%s:wire:present-value" % kind, "%s history %r: presentValue over the wire %r, model %r" % (name, ops[:i + 1], got[0], want[0]))]
        if got[1] != want[1]:
            bad = [j + 1 for j in range(16) if got[1][j] != want[1][j]]
            return [("cmd:%s:wire:slot" % kind, "%s history %r: slot %d reads %r over the wire, model %r" % (name, ops[:i + 1], bad[0], got[1][bad[0] - 1], want[1][bad[0] - 1]))]
        # an element read agrees with the whole-array read
        j = (op[1] if len(op) > 1 and isinstance(op[1], int) and 1 <= op[1] <= 16 else 16)
        r = rp("priorityArray", j)
        if isinstance(r, A.ReadPropertyACK):
            ev = pv_of(r.propertyValue.cast_out(L.B.PriorityValue))
            if ev != want[1][j - 1]:
                return [("cmd:%s:wire:slot-element" % kind, "%s history %r: priorityArray[%d] reads %r, model %r" % (name, ops[:i + 1], j, ev, want[1][j - 1]))]
        else:
            return [("cmd:%s:wire:element-read-failed" % kind, "%s: priorityArray[%d] answered %r" % (name, j, r))]
    return []


# ---- minimum on / off -----------------------------------------------------------------------------------------------------------

def run_minonoff(name, on, off, ops):
    """ops: ["w", p, 'active'|'inactive'] | ["r", p] | ["adv", dt]; p never 6"""
    L = lib()
    VC.install(0.0)
    VC.reset(0.0)
    obj = make_object(name)
    obj.minimumOnTime = on
    obj.minimumOffTime = off
    m = Model("inactive")
    hold_until = [None]
    now = [0.0]
    watchers = []
    tname = "min-on-off"

    def model_pv_changed(old):
        new = m.pv()
        if new != old:
            T = on if new == "active" else off
            if T:
                m.slots[6] = (new,)
                hold_until[0] = now[0] + T

    def model_advance(to):
        while hold_until[0] is not None and hold_until[0] <= to:
            t = hold_until[0]
            now[0] = t
            hold_until[0] = None
            old = m.pv()
            m.slots[6] = None
            model_pv_changed(old)
        now[0] = to

    for i, op in enumerate(ops):
        try:
            if op[0] == "w":
                old = m.pv()
                obj.WriteProperty("presentValue", op[2], priority=op[1])
                m.slots[op[1]] = (op[2],)
                model_pv_changed(old)
            elif op[0] == "r":
                old = m.pv()
                obj.WriteProperty("presentValue", (), priority=op[1])
                m.slots[op[1]] = None
                model_pv_changed(old)
            elif op[0] == "watch":
                # somebody else takes an interest in the present value (what a COV subscription does) ...
                from bacpypes.service.detect import DetectionAlgorithm

                class _Watcher(DetectionAlgorithm):
                    pv = None

                    def execute(self):
                        pass
                w_ = _Watcher()
                w_.bind(pv=(obj, "presentValue"))
                watchers.append(w_)
            elif op[0] == "unwatch":
                # ... and loses it again (the subscription is cancelled or runs out)
                if watchers:
                    watchers.pop(op[1] % len(watchers)).unbind()
            elif op[0] == "adv":
                VC.pump(VC.clk.now + op[1])
                model_advance(now[0] + op[1])
        except Exception as err:
            return [("%s:raised:%s" % (tname, type(err).__name__), "%s on=%r off=%r history %r: %r" % (name, on, off, ops[:i + 1], err))]
        sw = [r for r in boot.swallowed.take() if r[0]]
        if sw:
            return [("%s:task-raised:%s" % (tname, sw[0][0]), "%s on=%r off=%r history %r: %r" % (name, on, off, ops[:i + 1], sw[0]))]
        got_pv = obj.presentValue
        got6 = slot_value(obj, 6, L.datatype[name])
        if got_pv != m.pv():
            return [("%s:present-value" % tname, "%s on=%r off=%r history %r at t=%.1f: presentValue %r, model %r (slot 6 %r, model %r)"
                     % (name, on, off, ops[:i + 1], now[0], got_pv, m.pv(), got6, m.slots[6]))]
        want6 = m.slots[6][0] if m.slots[6] else None
        if got6 != want6:
            kindx = "held-too-long" if got6 is not None and want6 is None else ("released-early" if got6 is None else "wrong-state")
            return [("%s:slot6:%s" % (tname, kindx), "%s on=%r off=%r history %r at t=%.1f: slot 6 holds %r, model %r" % (name, on, off, ops[:i + 1], now[0], got6, want6))]
    return []


# ---- judge ------------------------------------------------------------------------------------------------------------------------

def ops_nontrivial(ops):
    occ = set()
    nt = False
    for op in ops:
        if op[0] == "w":
            occ.add(op[1] if op[1] is not None else 16)
            if len(occ) >= 2:
                nt = True
        elif op[0] == "r":
            if (op[1] if op[1] is not None else 16) in occ:
                nt = True
            occ.discard(op[1] if op[1] is not None else 16)
        elif op[0] in ("bad", "slot0", "rd", "badval"):
            nt = True
    return nt


def judge(case):
    try:
        with watchdog(60):
            if case["k"] == "direct":
                return Verdict(run_direct(case["cls"], case["ops"]), ops_nontrivial(case["ops"]), ("direct",))
            if case["k"] == "wire":
                return Verdict(run_wire(case["cls"], case["ops"]), ops_nontrivial(case["ops"]), ("wire",))
            if case["k"] == "minonoff":
                return Verdict(run_minonoff(case["cls"], case["on"], case["off"], case["ops"]), True, ("minonoff",))
    except Stall:
        return Verdict([("stall", "no return within 60 s")], True, ("stall",))
    raise ValueError(case["k"])


# ---- generation ----------------------------------------------------------------------------------------------------------------------

PRIOS = (1, 6, 8, 16)


def alphabet():
    a = []
    for p in PRIOS:
        for vi in range(3):
            a.append(["w", p, vi])
        a.append(["r", p])
    for vi in range(3):
        a.append(["w", None, vi])
    return a          # 19 symbols


REPRESENTATIVES = ["AnalogValueCmdObject", "BinaryValueCmdObject", "MultiStateValueCmdObject", "CharacterStringValueCmdObject",
                   "BitStringValueCmdObject", "OctetStringValueCmdObject", "IntegerValueCmdObject", "DateValueCmdObject",
                   "TimeValueCmdObject", "LargeAnalogValueCmdObject", "AccessDoorCmdObject"]


def plan(tier, seed):
    specs = []
    for n in class_names():
        specs.append(dict(name="all-%s" % n, kind="all", cls=n, maxlen=3 if n not in REPRESENTATIVES else (4 if tier == "quick" else 5), tier=tier))
    for i in range(4):
        specs.append(dict(name="random-%d" % i, kind="random", n=60 if tier == "quick" else 800, classes=class_names()[i::4]))
    for i in range(4):
        specs.append(dict(name="wire-%d" % i, kind="wire", n=30 if tier == "quick" else 400, classes=class_names()[i::4]))
    for i in range(4):
        specs.append(dict(name="minonoff-%d" % i, kind="minonoff", n=400 if tier == "quick" else 6000))
    # once more with the library's debug tracing switched on
    specs.append(dict(name="tracing-random", kind="random", n=15 if tier == "quick" else 200, classes=class_names(), tracing=True))
    specs.append(dict(name="tracing-minonoff", kind="minonoff", n=100 if tier == "quick" else 1500, tracing=True))
    return specs


def run(spec, ctx):
    kind = spec["kind"]
    if kind == "all":
        name = spec["cls"]
        if values_for(name) is None:
            ctx.check(dict(k="direct", cls=name, ops=[]))
            return
        alpha = alphabet()
        bad = [["bad", 0, 1], ["bad", 17, 1], ["bad", 255, 0], ["bad", -1, 2], ["bad", 0, None], ["slot0", 1]]
        for ln in range(1, spec["maxlen"] + 1):
            for seq in itertools.product(range(len(alpha)), repeat=ln):
                ops = [alpha[i] for i in seq]
                ctx.check(dict(k="direct", cls=name, ops=ops))
        for seq in itertools.product(range(len(alpha)), repeat=2):
            for b in bad:
                ops = [alpha[seq[0]], b, alpha[seq[1]]]
                ctx.check(dict(k="direct", cls=name, ops=ops))
        # a relinquish default changed by the local application, before / between / after commands
        for seq in itertools.product(range(len(alpha)), repeat=2):
            for vi in (0, 1, 2):
                a, b = alpha[seq[0]], alpha[seq[1]]
                rel = [["r", p_] for p_ in PRIOS]
                for ops in ([["rd", vi], a, b] + rel, [a, ["rd", vi], b] + rel, [a, b, ["rd", vi]] + rel + [["w", PRIOS[1], vi], ["r", PRIOS[1]]]):
                    ctx.check(dict(k="direct", cls=name, ops=ops))
        # the same short histories over the wire
        for seq in itertools.product(range(len(alpha)), repeat=2):
            ctx.check(dict(k="wire", cls=name, ops=[alpha[i] for i in seq]))
        for b in bad[:3]:
            ctx.check(dict(k="wire", cls=name, ops=[alpha[1], b, alpha[7]]))
        # a write and a relinquish without a priority field count as priority 16
        for vi in (0, 1):
            for pre in ([], [["w", 8, 2]], [["w", 16, 2]]):
                ops_ = pre + [["w", None, vi], ["r", None], ["w", None, vi], ["r", 16], ["w", 16, vi], ["r", None]]
                ctx.check(dict(k="wire", cls=name, ops=ops_))
                ctx.check(dict(k="direct", cls=name, ops=ops_))
        for p_ in PRIOS:
            for a_ in ([], [alpha[1]], [alpha[5]]):
                ctx.check(dict(k="wire", cls=name, ops=a_ + [["badval", p_, 0], ["w", 16, 1], ["badval", p_, 1], ["r", 16]]))
        ctx.mark_exhaustive("all command sequences up to length %d on %s (direct), length 2 over the wire" % (spec["maxlen"], name))
    elif kind in ("random", "wire"):
        from hypothesis import strategies as st
        op = st.one_of(st.tuples(st.just("w"), st.one_of(st.integers(1, 16), st.none()), st.integers(0, 2)).map(list),
                       st.tuples(st.just("w"), st.integers(1, 16), st.integers(0, 2)).map(list),
                       st.tuples(st.just("r"), st.one_of(st.integers(1, 16), st.integers(1, 16), st.none())).map(list),
                       st.tuples(st.just("bad"), st.sampled_from([0, 17, 255, -1, 100]), st.integers(0, 2)).map(list),
                       st.tuples(st.just("slot0"), st.integers(0, 2)).map(list))
        if kind == "random":
            op = st.one_of(op, op, op, op, st.tuples(st.just("rd"), st.integers(0, 2)).map(list))
        else:
            op = st.one_of(op, op, op, op, op, st.tuples(st.just("badval"), st.integers(1, 16), st.integers(0, 2)).map(list))
        for name in spec["classes"]:
            if values_for(name) is None:
                continue
            maxlen = 100 if kind == "random" else 25
            strat = st.lists(op, min_size=1, max_size=maxlen).map(lambda ops, name=name: dict(k="direct" if kind == "random" else "wire", cls=name, ops=ops))
            ctx.for_all(strat, spec["n"], salt=sum(map(ord, name)))
    elif kind == "minonoff":
        from hypothesis import strategies as st
        prio = st.sampled_from([1, 3, 5, 7, 8, 16])
        op = st.one_of(st.tuples(st.just("w"), prio, st.sampled_from(["active", "inactive"])).map(list),
                       st.tuples(st.just("r"), prio).map(list),
                       st.tuples(st.just("adv"), st.sampled_from([0.5, 1.0, 2.0, 3.0, 5.0, 10.0, 11.0])).map(list),
                       st.sampled_from([["watch"], ["unwatch", 0], ["unwatch", 1]]))
        strat = st.tuples(st.sampled_from(["BinaryValueCmdObject", "BinaryOutputCmdObject"]), st.sampled_from([0, 1, 2, 5, 10]), st.sampled_from([0, 1, 3, 5, 9]),
                          st.lists(op, min_size=1, max_size=25)).map(lambda t: dict(k="minonoff", cls=t[0], on=t[1], off=t[2], ops=t[3]))
        ctx.for_all(strat, spec["n"])
