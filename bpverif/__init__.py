"""bpverif -- property-based / fuzzing checks for the twenty bacpypes properties."""
