"""Reference for C20: calendar predicates (python datetime/calendar) and a direct interpreter of clause 12.24."""
import calendar, datetime

OPEN = None


def real_date(y, m, d):
    """BACnet date tuple (year-1900, month, day, day-of-week 1=Monday..7=Sunday)"""
    return (y - 1900, m, d, datetime.date(y, m, d).isoweekday())


def month_matches(month, p):
    if p == 255:
        return True
    if p == 13:
        return month % 2 == 1
    if p == 14:
        return month % 2 == 0
    return month == p


def match_date(date, pat):
    yo, m, d, dow = date
    py, pm, pd, pdow = pat
    if py != 255 and py != yo:
        return False
    if not month_matches(m, pm):
        return False
    if pd == 255:
        pass
    elif pd == 32:
        if d != calendar.monthrange(yo + 1900, m)[1]:
            return False
    elif pd == 33:
        if d % 2 != 1:
            return False
    elif pd == 34:
        if d % 2 != 0:
            return False
    elif pd != d:
        return False
    if pdow != 255 and pdow != dow:
        return False
    return True


def match_range(date, start, end):
    """start / end: (year-1900, month, day) or OPEN"""
    cur = datetime.date(date[0] + 1900, date[1], date[2])
    if start is not OPEN and cur < datetime.date(start[0] + 1900, start[1], start[2]):
        return False
    if end is not OPEN and cur > datetime.date(end[0] + 1900, end[1], end[2]):
        return False
    return True


def match_weeknday(date, wnd):
    yo, m, d, dow = date
    pm, pw, pdow = wnd
    if not month_matches(m, pm):
        return False
    last = calendar.monthrange(yo + 1900, m)[1]
    if pw == 255:
        pass
    elif 1 <= pw <= 5:
        lo, hi = [(1, 7), (8, 14), (15, 21), (22, 28), (29, 31)][pw - 1]
        if not (lo <= d <= hi):
            return False
    elif 6 <= pw <= 9:
        k = pw - 6                       # 0: last 7 days, 1: the 7 days before them, ...
        hi = last - 7 * k
        lo = hi - 6
        if not (lo <= d <= hi):
            return False
    else:
        return False
    if pdow != 255 and pdow != dow:
        return False
    return True


def entry_matches(date, entry):
    k = entry[0]
    if k == "date":
        return match_date(date, tuple(entry[1]))
    if k == "range":
        return match_range(date, tuple(entry[1]) if entry[1] else OPEN, tuple(entry[2]) if entry[2] else OPEN)
    if k == "wnd":
        return match_weeknday(date, tuple(entry[1]))
    raise ValueError(k)


def period_matches(date, period, calendars):
    if period[0] == "cal":
        return any(entry_matches(date, e) for e in calendars[period[1]])
    return entry_matches(date, period)


def in_effect(date, sched):
    s, e = sched["effective"]
    return match_range(date, tuple(s) if s else OPEN, tuple(e) if e else OPEN)


def latest(tvs, t):
    """latest entry at or before t in a sorted list of [time, value]; None if there is none"""
    cur = None
    for tv in tvs:
        if tuple(tv[0]) <= tuple(t):
            cur = tv
        else:
            break
    return cur


def evaluate(sched, date, t):
    """-> ('outside',) or ('value', v)"""
    if not in_effect(date, sched):
        return ("outside",)
    for ex in sorted(sched["exceptions"], key=lambda e: e["prio"]):
        if not period_matches(date, ex["period"], sched.get("calendars", [])):
            continue
        cur = latest(ex["tv"], t)
        if cur is not None and cur[1] is not None:
            return ("value", cur[1])
    cur = latest(sched["weekly"][date[3] - 1], t)
    if cur is not None and cur[1] is not None:
        return ("value", cur[1])
    return ("value", sched["default"])


def times_of_day(sched, date):
    """every configured time that could matter on this date"""
    ts = set()
    for ex in sched["exceptions"]:
        if period_matches(date, ex["period"], sched.get("calendars", [])):
            for tv in ex["tv"]:
                ts.add(tuple(tv[0]))
    for tv in sched["weekly"][date[3] - 1]:
        ts.add(tuple(tv[0]))
    return sorted(ts)
