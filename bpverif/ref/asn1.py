"""Independent reference for ASHRAE 135 clause 20.2: tag framing and the primitive encodings.
bytes in / plain Python values out.  Shares no code with bacpypes."""
import struct

APP, CTX, OPEN, CLOSE = 0, 1, 2, 3
(NULL, BOOLEAN, UNSIGNED, INTEGER, REAL, DOUBLE, OCTETS, CHARS, BITS, ENUM, DATE, TIME, OID) = range(13)


class Reject(Exception):
    pass


# ---- tags --------------------------------------------------------------------------------
# a tag is (class, number, lvt, data); for application booleans lvt is the value and data is b'';
# for opening/closing tags lvt == 0 and data == b''; otherwise lvt == len(data)

def encode_tag(t):
    cls, num, lvt, data = t
    first = 0
    out = bytearray()
    if num < 15:
        first |= num << 4
    else:
        first |= 0xF0
    if cls == OPEN:
        first |= 0x0E
        ext_len = None
    elif cls == CLOSE:
        first |= 0x0F
        ext_len = None
    else:
        if cls == CTX:
            first |= 0x08
        if lvt < 5:
            first |= lvt
            ext_len = None
        else:
            first |= 5
            ext_len = lvt
    out.append(first)
    if num >= 15:
        out.append(num)
    if ext_len is not None:
        if ext_len <= 253:
            out.append(ext_len)
        elif ext_len <= 65535:
            out.append(254)
            out += struct.pack(">H", ext_len)
        else:
            out.append(255)
            out += struct.pack(">L", ext_len)
    out += bytes(data)
    return bytes(out)


def encode_tags(tags):
    return b"".join(encode_tag(t) for t in tags)


def decode_tags(b):
    """-> (list of tags, set of leniency notes).  Raises Reject when a tag runs off the end.

    Leniencies shared with common implementations (they do not affect framing):
      'lvt67-without-class-bit'  initial octet with LVT 6/7 but class bit 0 read as opening/closing
      'boolean-lvt>1'            application boolean whose value field is not 0/1
      'noncanonical-length'      extended length used for a length that fits a shorter form
      'number-255'               extended tag number 255 (reserved)
    """
    b = bytes(b)
    pos = 0
    n = len(b)
    tags = []
    notes = set()
    while pos < n:
        first = b[pos]
        pos += 1
        num = first >> 4
        cls = (first >> 3) & 1
        lvt = first & 7
        if num == 15:
            if pos >= n:
                raise Reject("truncated tag number")
            num = b[pos]
            pos += 1
            if num == 255:
                notes.add("number-255")
            if num < 15:
                notes.add("noncanonical-number")
        if lvt == 6 or lvt == 7:
            if not cls:
                notes.add("lvt67-without-class-bit")
            tags.append((OPEN if lvt == 6 else CLOSE, num, 0, b""))
            continue
        if lvt == 5:
            if pos >= n:
                raise Reject("truncated length")
            lvt = b[pos]
            pos += 1
            if lvt == 254:
                if pos + 2 > n:
                    raise Reject("truncated length")
                lvt = struct.unpack(">H", b[pos:pos + 2])[0]
                pos += 2
                if lvt <= 253:
                    notes.add("noncanonical-length")
            elif lvt == 255:
                if pos + 4 > n:
                    raise Reject("truncated length")
                lvt = struct.unpack(">L", b[pos:pos + 4])[0]
                pos += 4
                if lvt <= 65535:
                    notes.add("noncanonical-length")
            elif lvt < 5:
                notes.add("noncanonical-length")
        if cls == APP and num == BOOLEAN:
            if lvt > 1:
                notes.add("boolean-lvt>1")
            tags.append((APP, num, lvt, b""))
            continue
        if pos + lvt > n:
            raise Reject("truncated data")
        tags.append((cls, num, lvt, b[pos:pos + lvt]))
        pos += lvt
    return tags, notes


# ---- nesting reference ----------------------------------------------------------------------

def get_context(tags, ctx):
    """What TagList.get_context(ctx) should return, as a model over (class, number) pairs.

    -> ("tag", index) | ("group", [indexes]) | ("none",) | ("invalid",) ; plus a flag telling whether a
    closing tag with a number different from its opening tag took part (the statement does not say whether that
    'balances'; both readings are accepted by the caller)."""
    i = 0
    mismatch = False
    n = len(tags)
    while i < n:
        cls, num = tags[i][0], tags[i][1]
        if cls == APP:
            pass
        elif cls == CTX:
            if num == ctx:
                return ("tag", i), mismatch
        elif cls == OPEN:
            start = i
            depth = 1
            stack = [num]
            j = i + 1
            while j < n and depth > 0:
                c2, n2 = tags[j][0], tags[j][1]
                if c2 == OPEN:
                    depth += 1
                    stack.append(n2)
                elif c2 == CLOSE:
                    depth -= 1
                    if stack.pop() != n2:
                        mismatch = True
                j += 1
            if depth > 0:
                return ("invalid",), mismatch          # group never closes
            if num == ctx:
                return ("group", list(range(start + 1, j - 1))), mismatch
            i = j - 1
        else:
            return ("invalid",), mismatch              # stray closing tag at top level
        i += 1
    return ("none",), mismatch


def any_extent(tags):
    """How many leading tags an 'any' element captures: up to (not including) the first closing tag that closes
    more than was opened; ("invalid",) if the list ends inside an opened group."""
    depth = 0
    for i, t in enumerate(tags):
        if t[0] == OPEN:
            depth += 1
        elif t[0] == CLOSE:
            depth -= 1
            if depth < 0:
                return ("ok", i)
    if depth > 0:
        return ("invalid",)
    return ("ok", len(tags))


# ---- primitives ---------------------------------------------------------------------------------

def enc_unsigned(v):
    if v < 0 or v > 0xFFFFFFFF:
        raise Reject("unsigned out of range")
    n = max(1, (v.bit_length() + 7) // 8)
    return v.to_bytes(n, "big")


def dec_unsigned(d):
    if not d:
        raise Reject("empty")
    return int.from_bytes(d, "big")


def enc_integer(v):
    if v < -(1 << 31) or v > (1 << 31) - 1:
        raise Reject("integer out of range")
    n = 1
    while not (-(1 << (8 * n - 1)) <= v < (1 << (8 * n - 1))):
        n += 1
    return v.to_bytes(n, "big", signed=True)


def dec_integer(d):
    if not d:
        raise Reject("empty")
    return int.from_bytes(d, "big", signed=True)


def enc_bits(bits):
    unused = (8 - len(bits) % 8) % 8
    out = bytearray([unused])
    padded = list(bits) + [0] * unused
    for i in range(0, len(padded), 8):
        x = 0
        for b in padded[i:i + 8]:
            x = (x << 1) | (1 if b else 0)
        out.append(x)
    return bytes(out)


def dec_bits(d):
    if not d:
        raise Reject("empty")
    unused = d[0]
    bits = []
    for x in d[1:]:
        for i in range(7, -1, -1):
            bits.append((x >> i) & 1)
    if unused > 7 or (unused and len(d) == 1):
        raise Reject("bad unused count")
    return bits[:len(bits) - unused] if unused else bits


def enc_oid(objtype, instance):
    if not (0 <= objtype <= 1023) or not (0 <= instance <= 0x3FFFFF):
        raise Reject("object identifier out of range")
    return struct.pack(">L", (objtype << 22) | instance)


def dec_oid(d):
    if len(d) != 4:
        raise Reject("length")
    w = struct.unpack(">L", d)[0]
    return (w >> 22, w & 0x3FFFFF)


def primitive_data(kind, v):
    """canonical content octets of a primitive (application tag `kind`) -- (lvt, data)"""
    if kind == NULL:
        return 0, b""
    if kind == BOOLEAN:
        return (1 if v else 0), b""
    if kind == UNSIGNED or kind == ENUM:
        d = enc_unsigned(v)
    elif kind == INTEGER:
        d = enc_integer(v)
    elif kind == REAL:
        d = struct.pack(">f", v)
    elif kind == DOUBLE:
        d = struct.pack(">d", v)
    elif kind == OCTETS:
        d = bytes(v)
    elif kind == CHARS:
        d = b"\x00" + v.encode("utf-8")
    elif kind == BITS:
        d = enc_bits(v)
    elif kind in (DATE, TIME):
        if len(v) != 4 or any((not isinstance(x, int)) or x < 0 or x > 255 for x in v):
            raise Reject("date/time octets")
        d = bytes(v)
    elif kind == OID:
        d = enc_oid(*v)
    else:
        raise ValueError(kind)
    return len(d), d


def encode_primitive(kind, v, context=None):
    """full canonical encoding: application-tagged, or context-tagged with number `context`"""
    lvt, d = primitive_data(kind, v)
    if context is None:
        return encode_tag((APP, kind, lvt, d))
    if kind == BOOLEAN:
        d = bytes([lvt])
        lvt = 1
    return encode_tag((CTX, context, lvt, d))


def decode_primitive(kind, b, context=None):
    """inverse of encode_primitive for one tag occupying all of b"""
    tags, notes = decode_tags(b)
    if len(tags) != 1:
        raise Reject("expected exactly one tag")
    cls, num, lvt, d = tags[0]
    if context is None:
        if cls != APP or num != kind:
            raise Reject("wrong tag")
    else:
        if cls != CTX or num != context:
            raise Reject("wrong tag")
        if kind == BOOLEAN:
            if len(d) != 1:
                raise Reject("boolean length")
            lvt = d[0]
    if kind == NULL:
        if d:
            raise Reject("null with data")
        return ()
    if kind == BOOLEAN:
        return bool(lvt)
    if kind in (UNSIGNED, ENUM):
        return dec_unsigned(d)
    if kind == INTEGER:
        return dec_integer(d)
    if kind == REAL:
        if len(d) != 4:
            raise Reject("real length")
        return struct.unpack(">f", d)[0]
    if kind == DOUBLE:
        if len(d) != 8:
            raise Reject("double length")
        return struct.unpack(">d", d)[0]
    if kind == OCTETS:
        return d
    if kind == CHARS:
        if not d:
            raise Reject("empty")
        if d[0] != 0:
            raise Reject("not utf-8 charset")
        return d[1:].decode("utf-8")
    if kind == BITS:
        return dec_bits(d)
    if kind in (DATE, TIME):
        if len(d) != 4:
            raise Reject("length")
        return tuple(d)
    if kind == OID:
        return dec_oid(d)
    raise ValueError(kind)
