"""Independent reference codec for BACnet/IP BVLL frames (ASHRAE 135 Annex J.2)."""
import struct


class Reject(Exception):
    pass


NAMES = ["Result", "WriteBroadcastDistributionTable", "ReadBroadcastDistributionTable",
         "ReadBroadcastDistributionTableAck", "ForwardedNPDU", "RegisterForeignDevice",
         "ReadForeignDeviceTable", "ReadForeignDeviceTableAck", "DeleteForeignDeviceTableEntry",
         "DistributeBroadcastToNetwork", "OriginalUnicastNPDU", "OriginalBroadcastNPDU"]


def body(fn, p):
    if fn == 0:
        return struct.pack(">H", p["code"])
    if fn in (1, 3):
        return b"".join(bytes(a) + struct.pack(">L", m) for a, m in p["bdt"])
    if fn in (2, 6):
        return b""
    if fn == 4:
        return bytes(p["addr"]) + bytes(p["data"])
    if fn == 5:
        return struct.pack(">H", p["ttl"])
    if fn == 7:
        return b"".join(bytes(a) + struct.pack(">HH", t, r) for a, t, r in p["fdt"])
    if fn == 8:
        return bytes(p["addr"])
    if fn in (9, 10, 11):
        return bytes(p["data"])
    raise ValueError(fn)


def encode(fn, p):
    b = body(fn, p)
    return bytes([0x81, fn]) + struct.pack(">H", 4 + len(b)) + b


def decode(frame):
    frame = bytes(frame)
    if len(frame) < 4:
        raise Reject("truncated header")
    if frame[0] != 0x81:
        raise Reject("type")
    fn = frame[1]
    ln = struct.unpack(">H", frame[2:4])[0]
    if ln != len(frame):
        raise Reject("length")
    b = frame[4:]
    if fn > 11:
        return fn, None
    if fn == 0:
        if len(b) < 2:
            raise Reject("body")
        return fn, dict(code=struct.unpack(">H", b[:2])[0])
    if fn in (1, 3):
        if len(b) % 10:
            raise Reject("table")
        return fn, dict(bdt=[(b[i:i + 6], struct.unpack(">L", b[i + 6:i + 10])[0]) for i in range(0, len(b), 10)])
    if fn in (2, 6):
        return fn, dict()
    if fn == 4:
        if len(b) < 6:
            raise Reject("body")
        return fn, dict(addr=b[:6], data=b[6:])
    if fn == 5:
        if len(b) < 2:
            raise Reject("body")
        return fn, dict(ttl=struct.unpack(">H", b[:2])[0])
    if fn == 7:
        if len(b) % 10:
            raise Reject("table")
        return fn, dict(fdt=[(b[i:i + 6],) + struct.unpack(">HH", b[i + 6:i + 10]) for i in range(0, len(b), 10)])
    if fn == 8:
        if len(b) < 6:
            raise Reject("body")
        return fn, dict(addr=b[:6])
    return fn, dict(data=b)
