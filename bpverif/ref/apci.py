"""Independent reference codec for the APDU fixed header (ASHRAE 135 clause 20.1.2-20.1.9).
Works on bytes; shares no code with bacpypes.  decode() is total: dict or Reject."""

CONF, UNCONF, SACK, CACK, SEGACK, ERROR, REJECT, ABORT = range(8)
NAMES = ["ConfirmedRequest", "UnconfirmedRequest", "SimpleAck", "ComplexAck",
         "SegmentAck", "Error", "Reject", "Abort"]

MAX_SEGS = {0: None, 1: 2, 2: 4, 3: 8, 4: 16, 5: 32, 6: 64, 7: ">64"}
MAX_APDU = {0: 50, 1: 128, 2: 206, 3: 480, 4: 1024, 5: 1476}


class Reject(Exception):
    pass


def encode(f):
    """f: dict(type, seg, mor, sa, srv, nak, seq, win, maxsegs, maxresp, service, invoke, reason, data)"""
    t = f["type"]
    d = bytes(f.get("data", b""))
    if t == CONF:
        o = [(t << 4) | (8 if f["seg"] else 0) | (4 if f["mor"] else 0) | (2 if f["sa"] else 0),
             (f["maxsegs"] << 4) | f["maxresp"], f["invoke"]]
        if f["seg"]:
            o += [f["seq"], f["win"]]
        o.append(f["service"])
    elif t == UNCONF:
        o = [t << 4, f["service"]]
    elif t == SACK:
        o = [t << 4, f["invoke"], f["service"]]
    elif t == CACK:
        o = [(t << 4) | (8 if f["seg"] else 0) | (4 if f["mor"] else 0), f["invoke"]]
        if f["seg"]:
            o += [f["seq"], f["win"]]
        o.append(f["service"])
    elif t == SEGACK:
        o = [(t << 4) | (2 if f["nak"] else 0) | (1 if f["srv"] else 0), f["invoke"], f["seq"], f["win"]]
    elif t == ERROR:
        o = [t << 4, f["invoke"], f["service"]]
    elif t == REJECT:
        o = [t << 4, f["invoke"], f["reason"]]
    elif t == ABORT:
        o = [(t << 4) | (1 if f["srv"] else 0), f["invoke"], f["reason"]]
    else:
        raise ValueError("no such APDU type")
    return bytes(o) + d


def decode(b):
    b = bytes(b)
    pos = [0]

    def get():
        if pos[0] >= len(b):
            raise Reject("truncated header")
        v = b[pos[0]]
        pos[0] += 1
        return v

    o0 = get()
    t = o0 >> 4
    f = {"type": t}
    if t == CONF:
        f["seg"], f["mor"], f["sa"] = bool(o0 & 8), bool(o0 & 4), bool(o0 & 2)
        o1 = get()
        f["maxsegs"], f["maxresp"] = (o1 >> 4) & 7, o1 & 15
        f["invoke"] = get()
        if f["seg"]:
            f["seq"] = get()
            f["win"] = get()
        f["service"] = get()
    elif t == UNCONF:
        f["service"] = get()
    elif t == SACK:
        f["invoke"] = get()
        f["service"] = get()
    elif t == CACK:
        f["seg"], f["mor"] = bool(o0 & 8), bool(o0 & 4)
        f["invoke"] = get()
        if f["seg"]:
            f["seq"] = get()
            f["win"] = get()
        f["service"] = get()
    elif t == SEGACK:
        f["nak"], f["srv"] = bool(o0 & 2), bool(o0 & 1)
        f["invoke"] = get()
        f["seq"] = get()
        f["win"] = get()
    elif t == ERROR:
        f["invoke"] = get()
        f["service"] = get()
    elif t == REJECT:
        f["invoke"] = get()
        f["reason"] = get()
    elif t == ABORT:
        f["srv"] = bool(o0 & 1)
        f["invoke"] = get()
        f["reason"] = get()
    else:
        raise Reject("APDU type %d" % t)
    f["data"] = b[pos[0]:]
    return f


def header_len(b):
    """number of fixed-header octets of a decodable APDU"""
    f = decode(b)
    return len(b) - len(f["data"])


def max_segs_code(n):
    """standard table, rounding a capability down; None/0 unspecified; 1 is not encodable"""
    if not n:
        return 0
    if n > 64:
        return 7
    best = None
    for code in range(1, 7):
        if MAX_SEGS[code] <= n:
            best = code
    return best


def max_apdu_code(n):
    best = None
    for code in range(6):
        if MAX_APDU[code] <= n:
            best = code
    return best
