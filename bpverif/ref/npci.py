"""Independent reference codec for the network layer (ASHRAE 135 clause 6.2 header, 6.4 messages).
bytes in / dict out; decode() is total (dict or Reject)."""
import struct


class Reject(Exception):
    pass


MSG_NAMES = {0: "WhoIsRouterToNetwork", 1: "IAmRouterToNetwork", 2: "ICouldBeRouterToNetwork",
             3: "RejectMessageToNetwork", 4: "RouterBusyToNetwork", 5: "RouterAvailableToNetwork",
             6: "InitializeRoutingTable", 7: "InitializeRoutingTableAck", 8: "EstablishConnectionToNetwork",
             9: "DisconnectConnectionToNetwork", 0x12: "WhatIsNetworkNumber", 0x13: "NetworkNumberIs"}


def encode(h):
    """h: dict(msg=None|int, vendor=int, dadr=None|('rs',net,bytes)|('rb',net)|('gb',), sadr=None|(net,bytes),
    er=bool, prio=0..3, hop=int, data=bytes)"""
    control = 0
    if h.get("msg") is not None:
        control |= 0x80
    if h.get("dadr") is not None:
        control |= 0x20
    if h.get("sadr") is not None:
        control |= 0x08
    if h.get("er"):
        control |= 0x04
    control |= h.get("prio", 0) & 3
    out = bytearray([1, control])
    d = h.get("dadr")
    if d is not None:
        if d[0] == "rs":
            out += struct.pack(">HB", d[1], len(d[2])) + bytes(d[2])
        elif d[0] == "rb":
            out += struct.pack(">HB", d[1], 0)
        else:
            out += struct.pack(">HB", 0xFFFF, 0)
    s = h.get("sadr")
    if s is not None:
        out += struct.pack(">HB", s[0], len(s[1])) + bytes(s[1])
    if d is not None:
        out.append(h["hop"])
    if h.get("msg") is not None:
        out.append(h["msg"])
        if h["msg"] >= 0x80:
            out += struct.pack(">H", h["vendor"])
    out += bytes(h.get("data", b""))
    return bytes(out)


def decode(b):
    b = bytes(b)
    pos = [0]

    def take(n):
        if pos[0] + n > len(b):
            raise Reject("truncated")
        v = b[pos[0]:pos[0] + n]
        pos[0] += n
        return v

    if len(b) < 2:
        raise Reject("shorter than version+control")
    if take(1)[0] != 1:
        raise Reject("version")
    control = take(1)[0]
    h = dict(control=control, msg=None, vendor=None, dadr=None, sadr=None, er=bool(control & 4), prio=control & 3,
             hop=None, unspecified=False)
    if control & 0x20:
        dnet, dlen = struct.unpack(">HB", take(3))
        dadr = take(dlen)
        if dnet == 0xFFFF:
            h["dadr"] = ("gb",)
            if dlen:
                h["unspecified"] = True      # malformed per 6.2.2, not in the property's list
        elif dlen == 0:
            h["dadr"] = ("rb", dnet)
        else:
            h["dadr"] = ("rs", dnet, dadr)
    if control & 0x08:
        snet, slen = struct.unpack(">HB", take(3))
        sadr = take(slen)
        if snet == 0xFFFF:
            raise Reject("broadcast SNET")
        if slen == 0:
            raise Reject("zero-length SADR")
        h["sadr"] = (snet, sadr)
    if control & 0x20:
        h["hop"] = take(1)[0]
    if control & 0x80:
        h["msg"] = take(1)[0]
        if h["msg"] >= 0x80:
            h["vendor"] = struct.unpack(">H", take(2))[0]
    h["data"] = b[pos[0]:]
    return h


def shorts(body):
    if len(body) % 2:
        raise Reject("odd network list")
    return [struct.unpack(">H", body[i:i + 2])[0] for i in range(0, len(body), 2)]


def encode_msg(mt, p):
    """message body from parameters (dict)"""
    if mt == 0:
        return b"" if p["net"] is None else struct.pack(">H", p["net"])
    if mt in (1, 4, 5):
        return b"".join(struct.pack(">H", n) for n in p["nets"])
    if mt == 2:
        return struct.pack(">HB", p["net"], p["perf"])
    if mt == 3:
        return struct.pack(">BH", p["reason"], p["dnet"])
    if mt in (6, 7):
        out = bytearray([len(p["table"])])
        for dnet, port, info in p["table"]:
            out += struct.pack(">HBB", dnet, port, len(info)) + bytes(info)
        return bytes(out)
    if mt == 8:
        return struct.pack(">HB", p["dnet"], p["time"])
    if mt == 9:
        return struct.pack(">H", p["dnet"])
    if mt == 0x12:
        return b""
    if mt == 0x13:
        return struct.pack(">HB", p["net"], p["flag"])
    raise ValueError(mt)


def decode_msg(mt, body):
    """parameters from a message body; trailing octets after fixed-size bodies are ignored"""
    body = bytes(body)

    def need(n):
        if len(body) < n:
            raise Reject("truncated body")

    if mt == 0:
        if not body:
            return dict(net=None)
        need(2)
        return dict(net=struct.unpack(">H", body[:2])[0])
    if mt in (1, 4, 5):
        return dict(nets=shorts(body))
    if mt == 2:
        need(3)
        n, pf = struct.unpack(">HB", body[:3])
        return dict(net=n, perf=pf)
    if mt == 3:
        need(3)
        r, d = struct.unpack(">BH", body[:3])
        return dict(reason=r, dnet=d)
    if mt in (6, 7):
        need(1)
        n = body[0]
        pos = 1
        tab = []
        for _ in range(n):
            if pos + 4 > len(body):
                raise Reject("truncated table")
            dnet, port, ln = struct.unpack(">HBB", body[pos:pos + 4])
            pos += 4
            if pos + ln > len(body):
                raise Reject("truncated port info")
            tab.append((dnet, port, body[pos:pos + ln]))
            pos += ln
        return dict(table=tab)
    if mt == 8:
        need(3)
        d, t = struct.unpack(">HB", body[:3])
        return dict(dnet=d, time=t)
    if mt == 9:
        need(2)
        return dict(dnet=struct.unpack(">H", body[:2])[0])
    if mt == 0x12:
        return dict()
    if mt == 0x13:
        need(3)
        n, f = struct.unpack(">HB", body[:3])
        return dict(net=n, flag=f)
    raise ValueError(mt)
