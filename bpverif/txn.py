"""One confirmed transaction between a client stack and a server stack on the faulty LAN (shared by C04, C05, C12).

run_txn(cfg, plan, silence) -> observation dict (plain data):
   outcomes     [(time, kind, invoke, payload-or-reason)] delivered to the requesting application / IOCB callback
   served       [(time, payload)] requests handed to the serving application
   frames       decoded LAN log
   quiescent    bool, t_end
   residue      dict(client_tr, client_timers, server_tr, server_timers, queue_by_address, late_client_frames)
"""
from . import clock as VC
from . import boot
from .lab_stack import StackLab, lib as lablib, pattern, Runaway
from .ref import apci as RA, npci as RN

DEFAULT = dict(c_seg="segmentedBoth", s_seg="segmentedBoth", c_apdu=1024, s_apdu=1024, c_segs=16, s_segs=16, c_win=2, s_win=2,
               retries=3, req_len=10, rsp_len=10, rsp="ack", think=0.0, iocb=False, nreq=1,
               apdu_timeout=3000, seg_timeout=1500, app_timeout=3000, know=False)

_apps = None


def apps():
    global _apps
    if _apps is None:
        L = lablib()
        A = L.apdu
        from bacpypes.errors import InconsistentParameters, OutOfResources, ExecutionError
        from bacpypes.basetypes import ErrorType

        class Base(object):
            def note_iam(self, apdu):
                pass

        def payload_of(any_value):
            try:
                return bytes(any_value.cast_out(L.OctetString))
            except Exception as err:
                return "undecodable:%s" % type(err).__name__

        class ClientApp(L.app.Application):
            _startup_disabled = True

            def __init__(self, device):
                L.app.Application.__init__(self, device)
                self.outcomes = []

            def confirmation(self, apdu):
                self.outcomes.append(describe(apdu))
                self.stack.outcome_delivered = True
                self.stack.delivered.add(getattr(apdu, "apduInvokeID", None))
                L.core.deferred(self.stack.snapshot)

        class IOClientApp(L.app.ApplicationIOController):
            _startup_disabled = True

            def __init__(self, device):
                L.app.ApplicationIOController.__init__(self, device)
                self.outcomes = []
                self.iocbs = []

            def submit(self, req):
                iocb = L.iocb.IOCB(req)
                iocb.add_callback(self._done)
                self.iocbs.append(iocb)
                self.request_io(iocb)
                return iocb

            def _done(self, iocb):
                if iocb.ioResponse is not None and iocb.ioError is None:
                    self.outcomes.append(describe(iocb.ioResponse) + ("iocb-response",))
                elif iocb.ioError is not None and iocb.ioResponse is None:
                    self.outcomes.append(describe(iocb.ioError) + ("iocb-error",))
                else:
                    self.outcomes.append((VC.clk.now, "inconsistent-iocb", None, repr((iocb.ioResponse, iocb.ioError)), "iocb"))
                self.stack.outcome_delivered = True
                self.stack.delivered.add(iocb.args[0].apduInvokeID)
                L.core.deferred(self.stack.snapshot)

        def describe(apdu):
            now = VC.clk.now
            inv = getattr(apdu, "apduInvokeID", None)
            if isinstance(apdu, A.ConfirmedPrivateTransferACK):
                return (now, "ack", inv, payload_of(apdu.resultBlock))
            if isinstance(apdu, A.SimpleAckPDU):
                return (now, "simpleack", inv, None)
            if isinstance(apdu, A.ComplexAckPDU):
                return (now, "ack-other", inv, type(apdu).__name__)
            if isinstance(apdu, A.ErrorPDU):
                return (now, "error", inv, type(apdu).__name__)
            if isinstance(apdu, A.RejectPDU):
                return (now, "reject", inv, apdu.apduAbortRejectReason)
            if isinstance(apdu, A.AbortPDU):
                return (now, "abort", inv, apdu.apduAbortRejectReason)
            return (now, "other:%s" % type(apdu).__name__, inv, None)

        class ServerApp(L.app.Application):
            _startup_disabled = True

            def __init__(self, device):
                L.app.Application.__init__(self, device)
                self.served = []
                self.rsp = "ack"
                self.rsp_len = 0
                self.think = 0.0

            def do_ConfirmedPrivateTransferRequest(self, apdu):
                self.served.append((VC.clk.now, payload_of(apdu.serviceParameters), apdu.apduInvokeID))
                if self.rsp == "silent":
                    return
                if self.rsp == "reject":
                    raise InconsistentParameters("harness: reject this request")
                if self.rsp == "abort":
                    raise OutOfResources("harness: abort this request")
                if self.rsp == "exec-error":
                    # what any service helper does to refuse a request: Application.indication turns it into an Error PDU
                    raise ExecutionError(errorClass="services", errorCode="serviceRequestDenied")
                if self.think > 0:
                    t = L.task.FunctionTask(self._answer, apdu)
                    t.install_task(delta=self.think)
                else:
                    self._answer(apdu)

            def _answer(self, apdu):
                if self.rsp == "ack":
                    resp = A.ConfirmedPrivateTransferACK(context=apdu)
                    resp.vendorID = 999
                    resp.serviceNumber = 1
                    resp.resultBlock = L.Any(L.OctetString(pattern(self.rsp_len, 0x5A)))
                elif self.rsp == "error":
                    resp = A.ConfirmedPrivateTransferError(context=apdu)
                    resp.errorType = ErrorType(errorClass="services", errorCode="serviceRequestDenied")
                    resp.vendorID = 999
                    resp.serviceNumber = 1
                else:
                    raise RuntimeError("unknown response kind %r" % (self.rsp,))
                self.response(resp)
        _apps = (ClientApp, IOClientApp, ServerApp)
    return _apps


def make_request(L, n, dest, invoke=None):
    A = L.apdu
    req = A.ConfirmedPrivateTransferRequest(vendorID=999, serviceNumber=1)
    req.serviceParameters = L.Any(L.OctetString(pattern(n, 0xA5)))
    req.pduDestination = L.Address(dest)
    if invoke is not None:
        req.apduInvokeID = invoke
    return req


_sizes = {}


def service_data_len(n, kind="req"):
    """encoded length of the service parameters for an octet-string payload of n octets (harness-side measurement)"""
    key = (n, kind)
    if key not in _sizes:
        from .ref import asn1 as R
        body = R.encode_tag((R.CTX, 0, 2, b"\x03\xe7")) + R.encode_tag((R.CTX, 1, 1, b"\x01")) + R.encode_tag((R.OPEN, 2, 0, b"")) + \
            R.encode_tag((R.APP, R.OCTETS, n, bytes(n))) + R.encode_tag((R.CLOSE, 2, 0, b""))
        _sizes[key] = len(body)
    return _sizes[key]


def payload_for_total(total):
    """largest octet-string length whose encoded service data is <= total octets (None if impossible)"""
    best = None
    for n in range(max(0, total - 16), total + 1):
        if service_data_len(n) <= total:
            best = n
    return best


def run_txn(cfg, plan=None, silence=None, fate=None, horizon=None):
    c = dict(DEFAULT)
    c.update(cfg)
    L = lablib()
    ClientApp, IOClientApp, ServerApp = apps()
    lab = StackLab()
    boot.swallowed.take()
    cli = lab.add_stack(1, IOClientApp if c["iocb"] else ClientApp, segmentation=c["c_seg"], max_apdu=c["c_apdu"], max_segs=c["c_segs"],
                        window=c["c_win"], retries=c["retries"], apdu_timeout=c["apdu_timeout"], seg_timeout=c["seg_timeout"], app_timeout=c["app_timeout"])
    srv = lab.add_stack(2, ServerApp, segmentation=c["s_seg"], max_apdu=c["s_apdu"], max_segs=c["s_segs"],
                        window=c["s_win"], retries=c["retries"], apdu_timeout=c["apdu_timeout"], seg_timeout=c["seg_timeout"], app_timeout=c["app_timeout"])
    cli.outcome_delivered = False
    cli.delivered = set()
    cli.at_outcome = []

    def snapshot():
        # what the requesting stack still holds right after the outcome was delivered (same instant)
        now = VC.clk.now
        cli.at_outcome.append(dict(tr=len(cli.smap.clientTransactions), timers=len([t for t in cli.timers() if t.taskTime > now]),
                                   queue=len(getattr(cli.app, "queue_by_address", {}))))
    cli.snapshot = snapshot
    srv.app.rsp, srv.app.rsp_len, srv.app.think = c["rsp"], c["rsp_len"], c["think"]
    lab.net.plan = dict((int(k), tuple(v)) for k, v in (plan or {}).items())
    lab.net.silence = tuple(silence) if silence else None
    lab.net.fate = fate
    # frames the client emits after the outcome has been delivered
    late = []
    orig_ind = cli.node.indication

    def watch(pdu):
        if cli.outcome_delivered:
            try:
                inv = RA.decode(RN.decode(bytes(pdu.pduData))["data"]).get("invoke")
            except Exception:
                inv = None
            if inv in cli.delivered or inv is None:
                late.append((VC.clk.now, bytes(pdu.pduData)))
        return orig_ind(pdu)
    cli.node.indication = watch
    if c["know"]:
        # the client has processed the server's I-Am through the documented DeviceInfoCache API
        iam = L.apdu.IAmRequest(iAmDeviceIdentifier=("device", 2), maxAPDULengthAccepted=c["s_apdu"],
                                segmentationSupported=c["s_seg"], vendorID=999)
        iam.pduSource = L.Address(2)
        cli.app.deviceInfoCache.iam_device_info(iam)
    if c.get("know_at") is not None:
        # ... or processes it while the transaction is already under way (the I-Am arrives between a transmission and its retry)
        def _learn():
            iam = L.apdu.IAmRequest(iAmDeviceIdentifier=("device", 2), maxAPDULengthAccepted=c["s_apdu"], segmentationSupported=c["s_seg"], vendorID=999)
            iam.pduSource = L.Address(2)
            cli.app.deviceInfoCache.iam_device_info(iam)
        L.task.FunctionTask(_learn).install_task(when=float(c["know_at"]))
    reqs = [make_request(L, c["req_len"], 2) for _ in range(c["nreq"])]
    req = reqs[0]
    submit_error = None
    try:
        for rq in reqs:
            if c["iocb"]:
                cli.app.submit(rq)
            else:
                cli.app.request(rq)
    except Exception as err:
        submit_error = "%s: %s" % (type(err).__name__, err)
    if horizon is None:
        horizon = t_max(c, plan)
    runaway = False
    try:
        quiescent = lab.run(horizon)
    except Runaway:
        quiescent = False
        runaway = True
    t_quiet = VC.clk.now
    obs = dict(cfg=c, outcomes=list(cli.app.outcomes), served=list(srv.app.served), frames=lab.frames(), quiescent=quiescent,
               t_end=t_quiet, horizon=horizon, runaway=runaway, invoke=req.apduInvokeID, invokes=[rq.apduInvokeID for rq in reqs], submit_error=submit_error,
               swallowed=[r for r in boot.swallowed.take() if r[0]],
               residue=dict(client_tr=len(cli.smap.clientTransactions), client_timers=len(cli.timers()),
                            server_tr=len(srv.smap.serverTransactions), server_timers=len(srv.timers()),
                            client_server_tr=len(cli.smap.serverTransactions), server_client_tr=len(srv.smap.clientTransactions),
                            queue_by_address=len(getattr(cli.app, "queue_by_address", {})),
                            late_client_frames=[x[1].hex() for x in late], at_outcome=list(cli.at_outcome)),
               states=dict(client=[t.state for t in cli.smap.clientTransactions], server=[t.state for t in srv.smap.serverTransactions]),
               pending_tasks=len(VC.tm.tasks))
    if c["iocb"] and cli.app.iocbs:
        io = cli.app.iocbs[0]
        obs["iocb"] = dict(state=io.ioState, has_response=io.ioResponse is not None, has_error=io.ioError is not None)
        obs["iocbs"] = [dict(state=x.ioState, has_response=x.ioResponse is not None, has_error=x.ioError is not None) for x in cli.app.iocbs]
    return obs


def seg_counts(c):
    """how many segments each direction needs (by the library's own slicing rule: payload / max-APDU of the receiver)"""
    def count(n, size):
        ln = service_data_len(n)
        if ln <= size - 4:
            return 1
        return max(1, -(-ln // max(1, size - 6)))
    req_size = min(c["c_apdu"], c["s_apdu"]) if c["know"] else c["c_apdu"]
    return count(c["req_len"], req_size), count(c["rsp_len"], min(c["c_apdu"], c["s_apdu"]))


def t_max(c, plan=None):
    """generous analytic bound on when everything must be over, in virtual seconds"""
    rs, ps = seg_counts(c)
    tout, tseg, tapp = c["apdu_timeout"] / 1000.0, c["seg_timeout"] / 1000.0, c["app_timeout"] / 1000.0
    delays = sum(float(a[1]) for a in (plan or {}).values() if a[0] == "delay")
    per_try = tout + (rs + ps + 4) * (c["retries"] + 1) * tseg * 4
    return (c["retries"] + 1) * per_try + tapp + c["think"] + delays + 30.0


# ---- wire monitor (C05 / C12) ---------------------------------------------------------------------------------

def segments_on_wire(frames):
    """frames of the LAN log that carry confirmed-request / complex-ack / segment-ack PDUs, in offered order"""
    out = []
    for f in frames:
        a = f.get("apci")
        if a is None:
            continue
        out.append(dict(i=f["i"], t=f["t"], act=f["act"], src=f["src"], dst=f["dst"], a=a, ln=len(f["npci"]["data"])))
    return out
