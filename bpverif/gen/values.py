"""Schema-driven values for bacpypes datatypes.

    schema_of(klass)          -> JSON-able description of the wire schema of a class (walks sequenceElements / choiceElements)
    strategy(klass, depth)    -> Hypothesis strategy of *plain* (JSON-able) values
    to_lib(klass, plain)      -> the library-side value (what is assigned to an element / passed to a constructor)
    from_lib(klass, value)    -> plain again (schema-walking comparator; does not use dict_contents)
    ref_encode(schema, table, plain) -> octets by an independent interpreter of the schema over bpverif.ref.asn1

Plain values:  None (Null) | bool | int | float | str | {"hex": ..} | {"bits": [..]} | {"dt": [4 ints]} | {"oid": [type, instance]}
               | {"enum": name-or-number} | {"seq": {name: plain}} | {"ch": [name, plain]} | {"list": [plain]}
               | {"any": [type-name, plain]} | {"atomic": [kind-name, plain]}
"""
import struct
from ..ref import asn1 as R

_L = None


class _Lib(object):
    pass


def lib():
    global _L
    if _L is None:
        L = _Lib()
        from bacpypes import primitivedata as P, constructeddata as C, basetypes as B, apdu as A, object as O
        L.P, L.C, L.B, L.A, L.O = P, C, B, A, O
        _L = L
    return _L


def is_seqof(k):
    C = lib().C
    return k in C._sequence_of_classes or any(b in C._sequence_of_classes for b in getattr(k, "__mro__", ()))


def is_listof(k):
    C = lib().C
    return k in C._list_of_classes or any(b in C._list_of_classes for b in getattr(k, "__mro__", ()))


def is_arrayof(k):
    C = lib().C
    return k in C._array_of_classes or any(b in C._array_of_classes for b in getattr(k, "__mro__", ()))


ATOMIC_KINDS = ["Null", "Boolean", "Unsigned", "Integer", "Real", "Double", "OctetString", "CharacterString", "BitString",
                "Enumerated", "Date", "Time", "ObjectIdentifier"]


def atomic_kind(klass):
    L = lib()
    for k in ATOMIC_KINDS:
        if issubclass(klass, getattr(L.P, k)):
            return k
    return None


def type_name(klass):
    return "%s.%s" % (klass.__module__.split(".")[-1], klass.__name__)


def enum_table(klass):
    by_name = {}
    for c in klass.__mro__:
        for n, v in (c.__dict__.get("enumerations") or {}).items():
            by_name.setdefault(n, v)
    return by_name


def schema_of(klass, table=None):
    """describe klass (and, recursively, everything it refers to) in `table`; returns the type name"""
    L = lib()
    C, P = L.C, L.P
    if table is None:
        table = {}
    name = type_name(klass)
    if is_seqof(klass) or is_listof(klass) or is_arrayof(klass):
        kind = "seqof" if is_seqof(klass) else ("listof" if is_listof(klass) else "arrayof")
        sub = schema_of(klass.subtype, table)
        name = "%s<%s>" % (kind, sub) + ("[%d]" % klass.fixed_length if getattr(klass, "fixed_length", None) is not None else "")
        if name not in table:
            table[name] = dict(kind="list", flavour=kind, sub=sub, fixed=getattr(klass, "fixed_length", None))
        return name
    if name in table:
        return name
    if issubclass(klass, C.AnyAtomic):
        table[name] = dict(kind="anyatomic")
        return name
    k = atomic_kind(klass)
    if k is not None:
        d = dict(kind="atomic", base=k)
        if k == "Enumerated":
            d["enum"] = enum_table(klass)
        if k == "BitString":
            d["bitlen"] = klass.bitLen
            d["bitnames"] = dict(klass.bitNames)
        if k == "Unsigned":
            d["low"], d["high"] = klass._low_limit, klass._high_limit
        table[name] = d
        return name
    if issubclass(klass, C.Any):
        table[name] = dict(kind="any", flavour="seqofany" if issubclass(klass, getattr(C, "SequenceOfAny", ())) and klass is not C.Any else "any")
        return name
    if issubclass(klass, C.Choice):
        table[name] = dict(kind="choice", elements=None)
        table[name]["elements"] = [dict(name=e.name, type=schema_of(e.klass, table), context=e.context, optional=bool(e.optional)) for e in klass.choiceElements]
        return name
    if issubclass(klass, C.Sequence):
        table[name] = dict(kind="seq", elements=None)
        table[name]["elements"] = [dict(name=e.name, type=schema_of(e.klass, table), context=e.context, optional=bool(e.optional)) for e in klass.sequenceElements]
        return name
    table[name] = dict(kind="opaque")
    return name


# ---- strategies -----------------------------------------------------------------------------------------------------------------

INT_B = sorted(set([0, 1, 2, 127, 128, 255, 256, 65535, 65536, (1 << 24) - 1, 1 << 24, (1 << 32) - 1]))


def f32(x):
    return struct.unpack(">f", struct.pack(">f", x))[0]


def atomic_strategy(klass):
    from hypothesis import strategies as st
    k = atomic_kind(klass)
    if k == "Null":
        return st.none()
    if k == "Boolean":
        return st.booleans()
    if k == "Unsigned":
        hi = klass._high_limit if klass._high_limit is not None else 0xFFFFFFFF
        return st.one_of(st.sampled_from([b for b in INT_B if klass._low_limit <= b <= hi]), st.integers(klass._low_limit, hi))
    if k == "Integer":
        return st.one_of(st.sampled_from([0, 1, -1, 127, 128, -128, -129, 32767, -32768, (1 << 31) - 1, -(1 << 31)]), st.integers(-(1 << 31), (1 << 31) - 1))
    if k == "Real":
        return st.one_of(st.sampled_from([0.0, 1.0, -1.5, 100.0, 3.4028234663852886e+38]), st.floats(width=32, allow_nan=False, allow_infinity=False))
    if k == "Double":
        return st.one_of(st.sampled_from([0.0, 1.0, -2.5, 1e300]), st.floats(allow_nan=False, allow_infinity=False))
    if k == "OctetString":
        return st.one_of(st.binary(max_size=6), st.sampled_from([253, 254, 300]).map(lambda n: bytes(i & 0xFF for i in range(n)))).map(lambda b: {"hex": b.hex()})
    if k == "CharacterString":
        return st.one_of(st.text(alphabet=st.characters(blacklist_categories=("Cs",)), max_size=8), st.sampled_from(["", "é€", "x" * 260]))
    if k == "BitString":
        if klass.bitNames:
            return st.lists(st.integers(0, 1), min_size=klass.bitLen, max_size=klass.bitLen).map(lambda b: {"bits": b})
        return st.integers(0, 20).flatmap(lambda n: st.lists(st.integers(0, 1), min_size=n, max_size=n)).map(lambda b: {"bits": b})
    if k == "Enumerated":
        names = sorted(enum_table(klass))
        alts = [st.integers(0, 70000).filter(lambda v, vals=set(enum_table(klass).values()): v not in vals)]
        if names:
            alts = [st.sampled_from(names), st.sampled_from(names)] + alts
        return st.one_of(*alts).map(lambda v: {"enum": v})
    if k in ("Date", "Time"):
        o = st.one_of(st.sampled_from([0, 1, 12, 13, 14, 31, 32, 34, 59, 99, 254, 255]), st.integers(0, 255))
        return st.tuples(o, o, o, o).map(lambda t: {"dt": list(t)})
    if k == "ObjectIdentifier":
        names = sorted(enum_table(klass.objectTypeClass))
        return st.tuples(st.one_of(st.sampled_from(names), st.sampled_from([60, 127, 128, 1023])), st.one_of(st.sampled_from([0, 1, 4194302, 4194303]), st.integers(0, 4194303))) \
            .map(lambda t: {"oid": [t[0], t[1]]})
    raise ValueError(klass)


def any_content_types():
    """types an Any / AnyAtomic is filled with"""
    L = lib()
    P, B = L.P, L.B
    atoms = [P.Null, P.Boolean, P.Unsigned, P.Integer, P.Real, P.Double, P.OctetString, P.CharacterString, P.BitString, P.Enumerated, P.Date, P.Time, P.ObjectIdentifier]
    constructed = [B.DateTime, B.DateRange, B.StatusFlags, B.TimeValue, B.DeviceObjectPropertyReference, B.PriorityValue, B.Recipient,
                   L.C.ArrayOf(P.Unsigned), L.C.SequenceOf(B.TimeValue), B.CalendarEntry, B.SpecialEvent, B.Destination]
    return atoms, constructed


# alternatives with an open known finding (C03): generated only when their own class is the target, so that the
# search continues behind them everywhere else
EXCLUDE_NESTED = set([("LogData", "logData"), ("NotificationParametersExtendedParametersType", "propertyValue")])
EXCLUDED_COUNT = [0]


def strategy(klass, depth=3, presence=None):
    """strategy of plain values for klass.  `presence`: optional callable(element name) -> True/False/None to force optionals."""
    return _strategy(klass, depth, presence, False)


def _strategy(klass, depth, presence, nested):
    from hypothesis import strategies as st
    L = lib()
    C = L.C

    def strategy(k, d):       # everything below the top level is nested
        return _strategy(k, d, None, True)
    if is_seqof(klass) or is_listof(klass) or is_arrayof(klass):
        fixed = getattr(klass, "fixed_length", None)
        sub = strategy(klass.subtype, depth - 1)
        if fixed is not None:
            return st.lists(sub, min_size=fixed, max_size=fixed).map(lambda l: {"list": l})
        return st.lists(sub, max_size=3 if depth > 0 else 1).map(lambda l: {"list": l})
    if issubclass(klass, C.AnyAtomic):
        atoms, _ = any_content_types()
        return st.sampled_from(atoms).flatmap(lambda a: atomic_strategy(a).map(lambda v, a=a: {"atomic": [a.__name__, v]}))
    if atomic_kind(klass) is not None:
        return atomic_strategy(klass)
    if issubclass(klass, C.Any):
        atoms, constructed = any_content_types()
        pool = atoms + constructed
        if issubclass(klass, getattr(C, "SequenceOfAny", ())) and klass is not C.Any:
            # SequenceOfAny.cast_in only takes ListOf(...) instances
            pool = [C.ListOf(L.B.TimeValue), C.ListOf(L.P.Unsigned), C.ListOf(L.B.DateTime), C.ListOf(L.P.Real)]
        # the carried value keeps enough depth to nest opening tags two and three deep inside the Any
        return st.sampled_from(pool).flatmap(lambda t: strategy(t, max(depth - 1, 2)).map(lambda v, t=t: {"any": [full_name(t), v]}))
    if issubclass(klass, C.Choice):
        els = [e for e in klass.choiceElements if not (nested and (klass.__name__, e.name) in EXCLUDE_NESTED)]
        if len(els) < len(klass.choiceElements):
            EXCLUDED_COUNT[0] += 1
        if depth <= 0:
            flat = [e for e in els if atomic_kind(e.klass) is not None]
            els = flat or els
        return st.sampled_from(els).flatmap(lambda e: strategy(e.klass, depth - 1).map(lambda v, e=e: {"ch": [e.name, v]}))
    if issubclass(klass, C.Sequence):
        parts = {}
        for e in klass.sequenceElements:
            s = strategy(e.klass, depth - 1)
            if klass.__name__ == "NameValue" and e.name == "value":
                # BACnetNameValue: the value is any primitive, or a date followed by a time (a BACnetDateTime without any bracket)
                s = st.one_of(s, s, st.tuples(atomic_strategy(L.P.Date), atomic_strategy(L.P.Time)).map(lambda t: {"atomic": ["DateTime", [t[0], t[1]]]}))
            if e.optional:
                force = presence(e.name) if presence else None
                if force is True:
                    parts[e.name] = s
                elif force is False:
                    continue
                elif depth <= 0:
                    continue
                else:
                    parts[e.name] = st.one_of(st.just(_ABSENT), s)
            else:
                parts[e.name] = s
        return st.fixed_dictionaries(parts).map(lambda d: {"seq": dict((k, v) for k, v in d.items() if v is not _ABSENT)})
    raise ValueError("no strategy for %r" % (klass,))


_ABSENT = "\x00absent"
_by_full_name = {}


def full_name(klass):
    L = lib()
    C = L.C
    if is_seqof(klass):
        n = "SequenceOf(%s)" % full_name(klass.subtype)
    elif is_listof(klass):
        n = "ListOf(%s)" % full_name(klass.subtype)
    elif is_arrayof(klass):
        n = "ArrayOf(%s)" % full_name(klass.subtype)
    else:
        n = "%s:%s" % (klass.__module__, klass.__name__)
    _by_full_name[n] = klass
    return n


def class_by_name(n):
    if n in _by_full_name:
        return _by_full_name[n]
    L = lib()
    C = L.C
    import importlib
    for wrap, fn in (("SequenceOf(", C.SequenceOf), ("ListOf(", C.ListOf), ("ArrayOf(", C.ArrayOf)):
        if n.startswith(wrap):
            k = fn(class_by_name(n[len(wrap):-1]))
            _by_full_name[n] = k
            return k
    mod, cname = n.split(":")
    k = getattr(importlib.import_module(mod), cname)
    _by_full_name[n] = k
    return k


# ---- plain <-> library ---------------------------------------------------------------------------------------------------------------

def atomic_to_lib(klass, v):
    k = atomic_kind(klass)
    if k == "Null":
        return ()
    if k in ("Boolean", "Unsigned", "Integer", "Double", "CharacterString"):
        return v
    if k == "Real":
        return f32(v)
    if k == "OctetString":
        return bytes.fromhex(v["hex"])
    if k == "BitString":
        return list(v["bits"])
    if k == "Enumerated":
        return v["enum"]
    if k in ("Date", "Time"):
        return tuple(v["dt"])
    if k == "ObjectIdentifier":
        return (v["oid"][0], v["oid"][1])
    raise ValueError(klass)


def atomic_from_lib(klass, x):
    k = atomic_kind(klass)
    if k == "Null":
        return None
    if k in ("Boolean", "Unsigned", "Integer", "Real", "Double", "CharacterString"):
        return x
    if k == "OctetString":
        return {"hex": bytes(x).hex()}
    if k == "BitString":
        return {"bits": list(x)}
    if k == "Enumerated":
        return {"enum": x}
    if k in ("Date", "Time"):
        return {"dt": list(x)}
    if k == "ObjectIdentifier":
        return {"oid": [x[0], x[1]]}
    raise ValueError(klass)


def to_lib(klass, plain):
    L = lib()
    C = L.C
    if is_seqof(klass) or is_listof(klass):
        return [to_lib(klass.subtype, p) for p in plain["list"]]
    if is_arrayof(klass):
        return klass([to_lib(klass.subtype, p) for p in plain["list"]])
    if issubclass(klass, C.AnyAtomic):
        if plain["atomic"][0] == "DateTime":
            return L.B.DateTime(date=atomic_to_lib(L.P.Date, plain["atomic"][1][0]), time=atomic_to_lib(L.P.Time, plain["atomic"][1][1]))
        ak = getattr(L.P, plain["atomic"][0])
        return ak(atomic_to_lib(ak, plain["atomic"][1]))
    if atomic_kind(klass) is not None:
        return atomic_to_lib(klass, plain)
    if issubclass(klass, C.Any):
        t = class_by_name(plain["any"][0])
        a = klass()
        inner = to_lib(t, plain["any"][1])
        if atomic_kind(t) is not None:
            inner = t(inner)
        elif is_seqof(t) or is_listof(t):
            inner = t(inner)
        a.cast_in(inner)
        return a
    if issubclass(klass, C.Choice):
        name, v = plain["ch"]
        e = [e for e in klass.choiceElements if e.name == name][0]
        return klass(**{name: to_lib(e.klass, v)})
    if issubclass(klass, C.Sequence):
        kw = {}
        for e in klass.sequenceElements:
            if e.name in plain["seq"]:
                kw[e.name] = to_lib(e.klass, plain["seq"][e.name])
        return klass(**kw)
    raise ValueError(klass)


def norm_enum(klass, v):
    """an enumeration value as the decoder presents it: the name when the number has one"""
    t = enum_table(klass)
    if isinstance(v, str):
        return v
    inv = {}
    for n, num in t.items():
        inv.setdefault(num, n)
    # the library keeps the LAST name registered for a number; with unique numbers this is the only one
    names = [n for n, num in t.items() if num == v]
    return names[0] if len(names) == 1 else v


def normalize(klass, plain):
    """canonical form of a plain value, so that 'sent' and 'decoded' can be compared with =="""
    L = lib()
    C = L.C
    if is_seqof(klass) or is_listof(klass) or is_arrayof(klass):
        return {"list": [normalize(klass.subtype, p) for p in plain["list"]]}
    if issubclass(klass, C.AnyAtomic):
        if plain["atomic"][0] == "DateTime":
            return {"atomic": ["DateTime", [normalize(L.P.Date, plain["atomic"][1][0]), normalize(L.P.Time, plain["atomic"][1][1])]]}
        ak = getattr(L.P, plain["atomic"][0])
        return {"atomic": [plain["atomic"][0], normalize(ak, plain["atomic"][1])]}
    k = atomic_kind(klass)
    if k == "Enumerated":
        return {"enum": norm_enum(klass, plain["enum"])}
    if k == "Real":
        return f32(plain)
    if k == "ObjectIdentifier":
        return {"oid": [norm_enum(klass.objectTypeClass, plain["oid"][0]), plain["oid"][1]]}
    if k is not None:
        return plain
    if issubclass(klass, C.Any):
        t = class_by_name(plain["any"][0])
        return {"any": [plain["any"][0], normalize(t, plain["any"][1])]}
    if issubclass(klass, C.Choice):
        name, v = plain["ch"]
        e = [e for e in klass.choiceElements if e.name == name][0]
        return {"ch": [name, normalize(e.klass, v)]}
    if issubclass(klass, C.Sequence):
        out = {}
        for e in klass.sequenceElements:
            if e.name in plain["seq"]:
                nv = normalize(e.klass, plain["seq"][e.name])
                # an empty optional list is indistinguishable from an absent one when no context tag brackets it
                if e.optional and isinstance(nv, dict) and nv.get("list") == [] and e.context is None:
                    continue
                out[e.name] = nv
        return {"seq": out}
    raise ValueError(klass)


def from_lib(klass, x, any_hint=None):
    """library value -> plain.  any_hint: for Any elements, the plain value that was sent (tells which type to cast out)"""
    L = lib()
    C = L.C
    if is_seqof(klass) or is_listof(klass):
        items = x.value if hasattr(x, "value") and not isinstance(x, list) else x
        hints = (any_hint or {}).get("list") if isinstance(any_hint, dict) else None
        return {"list": [from_lib(klass.subtype, it, hints[i] if hints and i < len(hints) else None) for i, it in enumerate(items)]}
    if is_arrayof(klass):
        items = list(x.value[1:]) if hasattr(x, "value") else list(x)
        hints = (any_hint or {}).get("list") if isinstance(any_hint, dict) else None
        return {"list": [from_lib(klass.subtype, it, hints[i] if hints and i < len(hints) else None) for i, it in enumerate(items)]}
    if issubclass(klass, C.AnyAtomic):
        v = x.value if isinstance(x, C.AnyAtomic) else x
        if isinstance(v, L.B.DateTime):
            return {"atomic": ["DateTime", [atomic_from_lib(L.P.Date, v.date), atomic_from_lib(L.P.Time, v.time)]]}
        ak = None
        for kname in ATOMIC_KINDS:
            if type(v).__name__ == kname or isinstance(v, getattr(L.P, kname)):
                ak = getattr(L.P, kname)
        return {"atomic": [ak.__name__, atomic_from_lib(ak, v.value)]}
    if atomic_kind(klass) is not None:
        return atomic_from_lib(klass, x)
    if issubclass(klass, C.Any):
        t = class_by_name(any_hint["any"][0])
        inner = x.cast_out(t)
        return {"any": [any_hint["any"][0], from_lib(t, inner, any_hint["any"][1])]}
    if issubclass(klass, C.Choice):
        present = [(e, getattr(x, e.name, None)) for e in klass.choiceElements if getattr(x, e.name, None) is not None]
        if len(present) != 1:
            return {"ch": ["?%d-alternatives-set" % len(present), None]}
        e, v = present[0]
        hint = any_hint["ch"][1] if isinstance(any_hint, dict) and "ch" in any_hint and any_hint["ch"][0] == e.name else None
        return {"ch": [e.name, from_lib(e.klass, v, hint)]}
    if issubclass(klass, C.Sequence):
        out = {}
        for e in klass.sequenceElements:
            v = getattr(x, e.name, None)
            if v is None:
                continue
            hint = any_hint["seq"].get(e.name) if isinstance(any_hint, dict) and "seq" in any_hint else None
            if issubclass(e.klass, C.Any) and hint is None:
                out[e.name] = {"any": ["?unexpected", None]}
                continue
            out[e.name] = from_lib(e.klass, v, hint)
        return {"seq": out}
    raise ValueError(klass)


# ---- reference encoder over a schema table -------------------------------------------------------------------------------------------

KIND_CODE = dict(Null=R.NULL, Boolean=R.BOOLEAN, Unsigned=R.UNSIGNED, Integer=R.INTEGER, Real=R.REAL, Double=R.DOUBLE, OctetString=R.OCTETS,
                 CharacterString=R.CHARS, BitString=R.BITS, Enumerated=R.ENUM, Date=R.DATE, Time=R.TIME, ObjectIdentifier=R.OID)


def ref_atomic(desc, plain, table):
    base = desc["base"]
    if base == "Null":
        return R.NULL, ()
    if base in ("Boolean", "Unsigned", "Integer", "Double", "CharacterString"):
        return KIND_CODE[base], plain
    if base == "Real":
        return R.REAL, f32(plain)
    if base == "OctetString":
        return R.OCTETS, bytes.fromhex(plain["hex"])
    if base == "BitString":
        return R.BITS, plain["bits"]
    if base == "Enumerated":
        v = plain["enum"]
        return R.ENUM, desc["enum"][v] if isinstance(v, str) else v
    if base in ("Date", "Time"):
        return KIND_CODE[base], tuple(plain["dt"])
    if base == "ObjectIdentifier":
        t = plain["oid"][0]
        if isinstance(t, str):
            t = table["primitivedata.ObjectType"]["enum"][t]
        return R.OID, (t, plain["oid"][1])
    raise ValueError(base)


def ref_encode(tname, table, plain, context=None):
    """octets of a value of type `tname`, optionally as the element with context number `context`"""
    d = table[tname]
    k = d["kind"]
    if k == "atomic":
        kind, v = ref_atomic(d, plain, table)
        return R.encode_primitive(kind, v, context)
    if k == "anyatomic" and plain["atomic"][0] == "DateTime":
        ensure_atomic(table, "Date")
        ensure_atomic(table, "Time")
        if context is not None:
            raise R.Reject("any atomic cannot be context tagged")
        return ref_encode("primitivedata.Date", table, plain["atomic"][1][0], None) + ref_encode("primitivedata.Time", table, plain["atomic"][1][1], None)
    if k == "anyatomic":
        sub = "primitivedata.%s" % plain["atomic"][0]
        ensure_atomic(table, plain["atomic"][0])
        if context is not None:
            raise R.Reject("any atomic cannot be context tagged")
        return ref_encode(sub, table, plain["atomic"][1], None)
    if k == "list":
        inner = b"".join(ref_encode(d["sub"], table, p, None) for p in plain["list"])
    elif k == "seq":
        inner = b""
        for e in d["elements"]:
            if e["name"] in plain["seq"]:
                inner += ref_encode(e["type"], table, plain["seq"][e["name"]], e["context"])
            elif not e["optional"]:
                raise R.Reject("missing required element %s" % e["name"])
    elif k == "choice":
        name, v = plain["ch"]
        e = [e for e in d["elements"] if e["name"] == name][0]
        inner = ref_encode(e["type"], table, v, e["context"])
    elif k == "any":
        t = class_by_name(plain["any"][0])
        sub = schema_of(t, table)
        inner = ref_encode(sub, table, plain["any"][1], None)
    else:
        raise ValueError(k)
    if context is not None:
        return R.encode_tag((R.OPEN, context, 0, b"")) + inner + R.encode_tag((R.CLOSE, context, 0, b""))
    return inner


def ensure_atomic(table, kindname):
    n = "primitivedata.%s" % kindname
    if n not in table:
        schema_of(getattr(lib().P, kindname), table)
